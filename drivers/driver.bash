# Persistent query driver for an emitted bash completion script (no change to the script itself).
# usage: bash --norc --noprofile driver.bash <script> <function> <probe dir>
# stdin : one query per line, fields separated by \x1f:  <wb: d|e> cmd w1 .. wn prefix END
# stdout: one line per query:  rc \x1e reply1 \x1f reply2 .. \x1e call1 \x1d call2 ..   (call = uid \x1f argc \x1f a1 \x1f a2)
_get_comp_words_by_ref () { while [[ $1 == -* ]]; do shift 2; done; words=("${COMP_WORDS[@]}"); cword=$COMP_CWORD; }
PROBE_DIR=$3
PROBE_LOG=$3/log
__probe () {
    local uid=$1 cls=$2; shift 2
    printf '%s\x1f%s\x1f%s\x1f%s\n' "$uid" "$#" "$1" "$2" >> "$PROBE_LOG"
    local __l; while IFS= read -r __l; do printf "%s\n" "$__l"; done < "$PROBE_DIR/$cls"
}
source "$1" 2>/dev/null
__fn=$2
__default_wb=$' \t\n"\'><=;|&(:'
while IFS= read -r __line; do
    IFS=$'\x1f' read -r -a __f <<< "$__line"
    unset '__f[-1]'
    if [[ ${__f[0]} == d ]]; then COMP_WORDBREAKS=$__default_wb; else COMP_WORDBREAKS=""; fi
    COMP_WORDS=("${__f[@]:1}")
    COMP_CWORD=$(( ${#COMP_WORDS[@]} - 1 ))
    COMPREPLY=()
    : > "$PROBE_LOG"
    "$__fn" 2>/dev/null </dev/null
    __rc=$?
    printf '%s\x1e' "$__rc"
    for __r in "${COMPREPLY[@]}"; do
        printf '%s\x1f' "$__r"          # terminator, not separator: an empty candidate stays visible
    done
    printf '\x1e'
    __first=1
    while IFS= read -r __c; do
        if [[ $__first == 1 ]]; then __first=0; else printf '\x1d'; fi
        printf '%s' "$__c"
    done < "$PROBE_LOG"
    printf '\n'
done
