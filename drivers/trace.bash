# Step tracer for an emitted bash completion script (no change to the script itself): bash's DEBUG trap, inherited by
# functions (`set -o functrace`), reports the variables of the completion function and of the within-word function
# whenever one of them has changed since the last report.
# usage: bash --norc --noprofile trace.bash <script> <function> <probe dir>
# stdin : one query per line, fields separated by \x1f:  <wb: d|e> cmd w1 .. wn prefix END
# stdout: per query a line `Q rc`, before it the step lines
#   S fn sub st wi ss ci m fl sfl nm mode     (unset -> -1 / -; sub = N of the wrapper _<cmd>_subword_N on the call stack)
_get_comp_words_by_ref () { while [[ $1 == -* ]]; do shift 2; done; words=("${COMP_WORDS[@]}"); cword=$COMP_CWORD; }
PROBE_DIR=$3
PROBE_LOG=$3/log
__probe () {
    local uid=$1 cls=$2; shift 2
    local __l; while IFS= read -r __l; do printf "%s\n" "$__l"; done < "$PROBE_DIR/$cls"
}
source "$1" 2>/dev/null
__fn=$2
__default_wb=$' \t\n"\'><=;|&(:'
__vt_prev=""
__vtrace () {
    local fn=${FUNCNAME[1]}
    case $fn in "$__fn") fn=top ;; "${__fn}_subword") fn=sub ;; *) return ;; esac
    local sub=-1 f
    for f in "${FUNCNAME[@]:2}"; do
        if [[ $f =~ ^${__fn}_subword_([0-9]+)$ ]]; then sub=${BASH_REMATCH[1]}; break; fi
    done
    local snap="$fn $sub ${state--1} ${word_index--1} ${subword_state--1} ${char_index--1} ${matched--1} ${fallback_level--1} ${subword_fallback_level--1} ${#matches[@]} ${mode:--}"
    if [[ $snap != "$__vt_prev" ]]; then __vt_prev=$snap; printf 'S %s\n' "$snap" >&9; fi
}
exec 9>&1
set -o functrace
while IFS= read -r __line; do
    IFS=$'\x1f' read -r -a __f <<< "$__line"
    unset '__f[-1]'
    if [[ ${__f[0]} == d ]]; then COMP_WORDBREAKS=$__default_wb; else COMP_WORDBREAKS=""; fi
    COMP_WORDS=("${__f[@]:1}")
    COMP_CWORD=$(( ${#COMP_WORDS[@]} - 1 ))
    COMPREPLY=()
    __vt_prev=""
    # the level counters of the emitted `for ((..))` loops are not declared local: start every query without them
    unset fallback_level subword_fallback_level matches
    trap __vtrace DEBUG
    "$__fn" 2>/dev/null </dev/null
    __rc=$?
    trap - DEBUG
    printf 'Q %s\n' "$__rc"
done
