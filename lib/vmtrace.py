# Step traces of the emitted bash completion function (drivers/trace.bash: bash's DEBUG trap, script unchanged) validated against
# spec/BashStep.tla: every reported change of `state`, `word_index`, `subword_state`, `char_index`, `matched`, ... must be a step
# the model's per-iteration operators (BashVM.tla) allow.  Rejections are MODEL-DRIFT notes, never verdicts.
import os, subprocess, tempfile, shutil
from concurrent.futures import ThreadPoolExecutor
import core, bashdrv

DRIVER = os.path.join(core.VERIF, "drivers", "trace.bash")
FIELDS = ["fn", "sub", "st", "wi", "ss", "ci", "m", "fl", "sfl", "nm", "mode"]


def run_script(script_text, fn, queries, extra_probes=None):
    """-> per query {"rc": int, "snaps": [dict]} (None when the driver gave no answer)"""
    d = tempfile.mkdtemp(prefix="vtrace-", dir=os.path.join(core.WORK, "tlc"))
    try:
        sp = os.path.join(d, "script.bash")
        with open(sp, "w") as f:
            f.write(script_text)
        for k, lines in list(bashdrv.PROBE_CLASSES.items()) + list((extra_probes or {}).items()):
            with open(os.path.join(d, k), "w") as f:
                f.write("".join(l + "\n" for l in lines))
        inp = "".join("\x1f".join([q.get("wb", "d"), "cmd"] + q["words"] + [q["prefix"], "END"]) + "\n" for q in queries)
        try:
            p = subprocess.run(["bash", "--norc", "--noprofile", DRIVER, sp, fn, d], input=inp.encode("utf-8", "surrogateescape"),
                               capture_output=True, timeout=60 + 10 * len(queries))
            out = p.stdout.decode("utf-8", "replace")
        except subprocess.TimeoutExpired as e:
            out = (e.stdout or b"").decode("utf-8", "replace")
        res, snaps = [], []
        for line in out.split("\n"):
            if line.startswith("S "):
                f = line[2:].split(" ")
                if len(f) == len(FIELDS):
                    snaps.append({k: (v if k in ("fn", "mode") else int(v)) for k, v in zip(FIELDS, f)})
            elif line.startswith("Q "):
                rc = line[2:].strip()
                res.append({"rc": int(rc) if rc.lstrip("-").isdigit() else -3, "snaps": snaps})
                snaps = []
        return res + [None] * (len(queries) - len(res))
    finally:
        shutil.rmtree(d, ignore_errors=True)


def events(snaps, subids):
    """consecutive reports -> one event per changed variable, in the order the emitted text assigns them"""
    ev = []
    prev = {"fn": "top", "sub": -1, "st": -1, "wi": -1, "ss": -1, "ci": -1, "m": -1, "fl": -1, "sfl": -1, "nm": 0, "mode": "-"}
    for s in snaps:
        if prev["fn"] == "top" and s["fn"] == "sub":
            idx = subids.index(s["sub"]) + 1 if s["sub"] in subids else 0
            ev.append({"e": "enter", "v": idx})
            prev = dict(prev, fn="sub", sub=s["sub"], ss=-1, ci=-1, m=-1, mode="-")        # sfl is a global of the emitted text
        elif prev["fn"] == "sub" and s["fn"] == "top":
            ev.append({"e": "leave", "v": 0})
            prev = dict(prev, fn="top", sub=-1, ss=-1, ci=-1, m=-1, mode="-")
        elif prev["fn"] == "sub" and s["fn"] == "sub" and s["sub"] != prev["sub"]:
            return None        # not produced by the emitted text
        order = ["st", "wi", "fl", "nm"] if s["fn"] == "top" else ["mode", "ss", "ci", "m", "sfl", "nm"]
        for k in order:
            if s[k] != prev[k]:
                ev.append({"e": k, "v": s[k]})
                prev[k] = s[k]
    if prev["fn"] == "sub":
        ev.append({"e": "leave", "v": 0})
    return ev


def validate(cases, budget, rnd, extra_probes=None, corrupt=None):
    """cases: executed corpus records carrying `_script`, `vm` (with `subids`) and `_raw` queries -> statistics"""
    jobs = []
    for c in cases:
        if not c.get("vm") or not c.get("_raw"):
            continue
        qs = [q for q in c["_raw"] if q.get("rc", -2) in (0, 1)]
        rnd.shuffle(qs)
        jobs.append((c, qs[:max(1, budget // max(1, len(cases)))]))
    if not jobs:
        return {"step_traces": 0}
    with ThreadPoolExecutor(core.NCPU) as ex:
        outs = list(ex.map(lambda j: run_script(j[0]["_script"], "_cmd", j[1], extra_probes), jobs))
    recs, nev = [], 0
    for (c, qs), res in zip(jobs, outs):
        traces = []
        for q, r in zip(qs, res):
            if r is None or r["rc"] != q["rc"]:
                continue
            ev = events(r["snaps"], c["vm"].get("subids", []))
            if ev is None:
                continue
            traces.append({"words": [bashdrv.cp(w) for w in q["words"]], "prefix": bashdrv.cp(q["prefix"]), "rc": r["rc"], "ev": ev,
                           "txt": " ".join(q["words"] + [q["prefix"] + "^"])})
            nev += len(ev)
        if traces:
            recs.append({"id": c["id"], "vm": c["vm"], "traces": traces, "usage": c.get("usage", "")})
    if corrupt:
        corrupt(recs)
    if not recs:
        return {"step_traces": 0}
    strip = [{"id": r["id"], "vm": r["vm"], "traces": [{k: t[k] for k in ("words", "prefix", "rc", "ev")} for t in r["traces"]]} for r in recs]
    res = core.run_tlc_sharded("BashStep.tla", "BashStep.cfg", strip, shards=8, workers=1, prefix="bashstep", timeout=3000)
    acc = {(x[0], x[1]) for x in res.tagged("ACCEPTED")}
    at = {}
    for x in res.tagged("AT"):
        at[(x[0], x[1])] = max(at.get((x[0], x[1]), 0), x[2])
    rejected = []
    for r in recs:
        for i, t in enumerate(r["traces"], 1):
            if (r["id"], i) not in acc:
                k = at.get((r["id"], i), 0)
                rejected.append({"id": r["id"], "usage": r["usage"].strip(), "line": t["txt"], "matched": k, "of": len(t["ev"]),
                                 "next": t["ev"][k] if k < len(t["ev"]) else "end (status %s)" % t["rc"]})
    for x in rejected[:3]:
        core.log("MODEL-DRIFT (BashStep.tla does not explain the script's steps; not a verdict): %s | line: %s | matched %d of %d events, next %s" % (
            x["usage"], x["line"], x["matched"], x["of"], x["next"]))
    ntr = sum(len(r["traces"]) for r in recs)
    return {"step_traces": ntr, "step_events": nev, "step_traces_accepted": len(acc), "step_traces_not_a_behaviour": len(rejected),
            "step_states": res.distinct, "step_rejected_examples": rejected[:5]}
