# spec -> impl -> spec flow for the properties decided by executing the emitted bash script:
#   Walk.tla (TLC) generates command lines per grammar, the real bash answers them, BashCheck.tla (TLC)
#   validates every recorded answer against the word-level meaning.
import json, os, time
import core, bashdrv

WB_CHARS = set(bashdrv.DEFAULT_WB)


def emit_scripts(cases):
    outs = core.emit_many(cases)
    ok = []
    for c, (rc, out, err, to) in zip(cases, outs):
        if rc == 0 and not to:
            c["_script"] = out.decode("utf-8", "replace")
            ok.append(c)
        else:
            c["_emit_rc"] = rc
    return ok


def walk(cases, depth, shards=8):
    strip = [{k: v for k, v in c.items() if not k.startswith("_")} for c in cases]
    res = core.run_tlc_sharded("Walk.tla", "Walk.cfg", strip, shards=shards, workers=2, prefix="walk",
                               env={"WALK_DEPTH": str(depth)})
    reps = {}
    for r in res.tagged("REPLAY"):
        d = json.loads(r[0])
        reps.setdefault(d["id"], []).append(d)
    return res, reps


def _pick_prefixes(words_next, stems, rnd, rich):
    """typed prefixes to try at one state: empty, foreign, and for each next word its first character,
    a middle cut, the whole word; word stems (complete tokens of an unfinished word)"""
    out = ["", "qq"]
    for w in words_next:
        if not w:
            continue
        cuts = {1, len(w)}
        if len(w) > 2:
            cuts.add(rnd.randint(2, len(w) - 1))
        if rich:
            cuts |= set(range(1, len(w) + 1))
        for i in sorted(cuts):
            out.append(w[:i])
    out += [x for x in stems if x]
    seen, res = set(), []
    for x in out:
        if x not in seen:
            seen.add(x)
            res.append(x)
    return res


def make_queries(reps, budget=30, rnd=None, rich=False):
    """REPLAY records of one grammar -> query list within a budget (bash costs ~25 ms per completion and
    process creation does not scale with cores in this sandbox): round-robin over the specification's
    states so that every reachable position set gets its share"""
    rnd = rnd or __import__("random").Random(1)
    per_state = []
    for d in sorted(reps, key=lambda d: (d["depth"], json.dumps(d["words"]))):
        words = [bashdrv.uncp(w) for w in d["words"]]
        allp = sorted({bashdrv.uncp(p) for p in d["prefixes"]}, key=lambda x: (len(x), x))
        # next words = maximal elements of the prefix-closed set
        maximal = [x for x in allp if not any(y != x and y.startswith(x) for y in allp)]
        pf = _pick_prefixes(maximal, [], rnd, rich) if not rich else allp
        qs = []
        for p in pf:
            qs.append({"words": words, "prefix": p, "wb": "d"})
            if set(p) & WB_CHARS:
                qs.append({"words": words, "prefix": p, "wb": "e"})
        if qs and not (set(qs[0]["prefix"]) & WB_CHARS):
            qs.insert(1, {"words": words, "prefix": qs[0]["prefix"], "wb": "e"})
        per_state.append(qs)
    out = []
    i = 0
    while len(out) < budget and any(per_state):
        for qs in per_state:
            if qs and len(out) < budget:
                out.append(qs.pop(0) if i < 2 else qs.pop(rnd.randrange(len(qs))))
        i += 1
    return out


def execute(cases, queries_by_id, fn="_cmd", extra_probes=None):
    jobs = []
    order = []
    for c in cases:
        qs = queries_by_id.get(c["id"])
        if not qs:
            continue
        jobs.append((c["_script"], fn, qs, extra_probes))
        order.append(c)
    results = bashdrv.run_many(jobs)
    out = []
    for c, res in zip(order, results):
        rec = {k: v for k, v in c.items() if not k.startswith("_")}
        rec["queries"] = [bashdrv.to_record(q) for q in res]
        rec["_raw"] = res
        out.append(rec)
    return out


def validate(records, shards=8):
    strip = [{k: v for k, v in r.items() if not k.startswith("_")} for r in records]
    res = core.run_tlc_sharded("BashCheck.tla", "BashCheck.cfg", strip, shards=shards, workers=2, prefix="bashcheck")
    mism = [json.loads(m[0]) for m in res.tagged("MISMATCH")]
    return res, mism, len(res.tagged("VALIDATED")), len(res.tagged("SKIPPED"))


RISK_ORDER = ["any_word_beside_unfinished_word", "command_candidate_beside_unfinished_word", "word_value_beside_unfinished_word", "fail_word_incomplete", "fail_not_a_command_candidate", "any_word_at_command_point", "command_candidate_beside_other_command",
              "word_value_with_longer_sibling",
              "command_candidate_with_blank", "fail_foreign", "word_value", "command_candidate", "any_word", "literal", "after_fail"]


def signature(d, kind):
    """diagnosis signature of one failed aspect of a MISMATCH record"""
    classes = d["classes"]
    risky = [c for c in RISK_ORDER if c in classes]
    sig = {"kind": kind, "path_class": risky[0] if risky else "none", "cursor": d["cursor"], "dup_text_in_word": d["cursordup"]}
    sig["dup_text_on_path"] = bool(d.get("pathdup", False))
    sig["last_word"] = classes[-1] if classes else "none"
    if classes and classes[-1].startswith("fail"):
        sig["fail_position"] = "last_before_cursor"
    elif any(c.startswith("fail") for c in classes):
        sig["fail_position"] = "earlier"
    if kind == "rc":
        sig["expected_rc"] = d["exprc"]
    if kind == "reply":
        sig["direction"] = ("missing" if d["missing"] else "") + ("extra" if d["extra"] else "")
        sig["missing_kinds"] = sorted(d["missingkinds"])
        sig["extra_kinds"] = sorted(d["extrakinds"])
    return sig
