# Running the product exploration (spec/Equiv.tla) and turning MISMATCH lines into diagnosis signatures.
# The decision (agree / mismatch) is TLC's; this file only classifies what TLC printed.
import json
import core

MODE_FLAGS = {"spec-raw": "M_SPEC_RAW", "spec-min": "M_SPEC_MIN", "raw-min": "M_RAW_MIN", "min-script": "M_MIN_SCRIPT"}


def lvclass(lv):
    return "0" if lv == 0 else ">0"


def classify(d):
    """d: MISMATCH payload {id, mode, hist, left, right, lacc, racc, inword} -> signature dict"""
    sig = {"side": d["mode"], "where": "inner" if d["inword"] else "top"}
    left, right = d["left"], d["right"]
    if not left and not right:
        sig["kind"] = "acceptance"
        sig["detail"] = "left_accepts" if d["lacc"] else "right_accepts"
        return sig
    for a in left:
        for b in right:
            same_txt = a["k"] == b["k"] and a["t"] == b["t"]
            if same_txt and (a["d"], a["hd"]) == (b["d"], b["hd"]) and a["lv"] != b["lv"]:
                sig.update(kind="level", symbol_kind=a["k"], levels=lvclass(a["lv"]) + " vs " + lvclass(b["lv"]))
                return sig
            if same_txt and a["lv"] == b["lv"] and a["k"] == "lit":
                sig.update(kind="description", symbol_kind="lit",
                           detail=("has" if a["hd"] else "none") + " vs " + ("has" if b["hd"] else "none"))
                return sig
            if a["k"] in ("cmd", "compadd") and b["k"] in ("cmd", "compadd") and a["lv"] == b["lv"]:
                sig.update(kind="command_text" if a["k"] == b["k"] else "command_kind", symbol_kind=a["k"])
                return sig
            if a["k"] in ("cmd", "compadd") and b["k"] == "star" or a["k"] == "star" and b["k"] in ("cmd", "compadd"):
                sig.update(kind="command_vs_anyword", symbol_kind=a["k"], other=b["k"])
                return sig
    if left and not right:
        sig.update(kind="missing_symbol", symbol_kind=sorted(x["k"] for x in left)[0])
    elif right and not left:
        sig.update(kind="extra_symbol", symbol_kind=sorted(x["k"] for x in right)[0])
    else:
        sig.update(kind="different_symbols", symbol_kind=sorted(x["k"] for x in left)[0], other=sorted(x["k"] for x in right)[0])
    return sig


def fmt_hist(h):
    out = []
    for a in h:
        if a["k"] == "lit":
            out.append(a["t"])
        elif a["k"] == "open":
            out.append("<word")
        elif a["k"] == "close":
            out.append("word>")
        elif a["k"] == "star":
            out.append("*")
        else:
            out.append("{{{%s}}}" % a["t"])
    return " ".join(out)


def run(records, modes, shards=8, workers=2, timeout=1800, coverage=False):
    """-> (TlcResult, mismatches per (id, mode) with the shortest history, validated count)"""
    env = {MODE_FLAGS[m]: "1" for m in modes}
    res = core.run_tlc_sharded("Equiv.tla", "Equiv.cfg", records, shards=shards, workers=workers, env=env,
                               timeout=timeout, prefix="equiv", coverage=coverage)
    best = {}
    for m in res.tagged("MISMATCH"):
        d = json.loads(m[0])
        key = (d["id"], d["mode"])
        if key not in best or len(d["hist"]) < len(best[key]["hist"]):
            best[key] = d
    validated = {(v[0], v[1]) for v in res.tagged("VALIDATED")}
    return res, best, validated
