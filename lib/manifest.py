#!/usr/bin/env python3
# Writes /verif/MANIFEST.json from the table below (single source of truth for what is claimed).
import json, os, sys
HERE = os.path.dirname(os.path.dirname(os.path.abspath(__file__)))

CHECKS = {
 "C02": dict(technique="TLC product exploration: Glushkov position automaton of the generator's tree (Meaning.tla) x recorded raw/minimised DFA (Equiv.tla); design level: Subset.tla over all pop orders of dfa_from_regex, and trace validation of its hook events plus the renumbered result of do_minimize against it (SubsetTrace.tla)",
             text="Complete labelled-language equivalence decision per grammar and shell (raw and minimised automaton, nested within-word automata through a flattened bracket encoding) for every normal-form tree up to a node bound plus random grammars; the oracle is the TLA+ meaning computed from the generator's tree, the implementation side is the automaton recorded from the real pipeline.",
             ref="7/C02", note="Bounded corpus (exhaustive <= 4/5 nodes + random); description distribution only in documented shapes; TLC and the recorder's projection of DFA structures are trusted."),
 "C03": dict(technique="TLC product exploration raw x minimised (Equiv.tla) + Nerode/trim evaluation on recorded automata (MinCheck.tla); design level: Hopcroft.tla over all schedules, and trace validation of the hook events of do_minimize against it (HopTrace.tla)",
             text="For every recorded automaton pair the raw/minimised languages are decided equal by exhaustive product exploration, and the minimised automaton is decided deterministic, trim and Nerode-minimal with size equal to the number of Nerode classes of the raw automaton.",
             ref="7/C03", note="Automata are those the direct construction yields on the corpus; minimality is relative to the automaton's own alphabet."),
 "C11": dict(technique="TLC: Usage.Chosen via Equiv product exploration + ChosenCheck.tla (script command bodies, metamorphic group equality)",
             text="Exhaustive over names x 2^5 definition subsets x 4 reference positions x 4 shells: the automaton's command items and the command function bodies of the emitted script equal the definition Usage.Chosen prescribes; definitions for other shells leave the script byte-identical.",
             ref="7/C11", note="Scripts of fish/zsh/pwsh are read, not executed."),
}
CHECKS["C01"] = dict(technique="TLC-generated command lines (Walk.tla) replayed in real bash; every recorded reply validated by TLC against the word-level meaning (Words.tla/BashCheck.tla); the emitted function itself is modelled (BashVM.tla: design-level product with Words.tla whose disagreements are replayed in bash; BashStep.tla: trace validation of the script's own steps recorded through bash's DEBUG trap)",
             text="For each corpus grammar TLC enumerates every reachable position set of the word-level meaning with a shortest word sequence and the prefixes to type; the emitted script answers in a real bash 5.2 (both COMP_WORDBREAKS settings); TLC validates each (reply set, status) against the meaning computed from the generator's tree.",
             ref="7/C01", note="Bounded: word sequences <= 4, budgeted sample of (state, prefix) pairs because bash executions cost ~25 ms and do not parallelise here; readline not run; regions assigned to C09/C12 are skipped and counted.")
CHECKS["C12"] = dict(technique="TLC-generated command lines (Walk.tla) over an exhaustive family of prefix-chain value sets, replayed in real bash; replies validated by TLC against the exact token-boundary dynamic programme of Words.tla (BashCheck.tla); the emitted function itself is modelled (BashVM.tla: design-level product with Words.tla whose disagreements are replayed in bash; BashStep.tla: trace validation of the script's own steps recorded through bash's DEBUG trap)",
             text="For every non-empty subset of the prefix-chain universe {a,ab,abc,abcd,b,bc,abd} as the alternatives of a within-word expression (after a literal prefix, followed by a further word), every value and every proper prefix of it is typed as the cursor word and every value as an earlier word; the real bash's reply and status are validated by TLC against the word-level meaning.",
             ref="7/C12", note="Bounded to the stated universe plus random sets over a 3-letter alphabet (thorough); quick samples the sets with more than two values; only bash is executed.")
CHECKS["C17"] = dict(technique="TLC-generated command lines (Walk.tla) replayed in real bash with logging probe commands; probe log, candidates and status validated by TLC against Words.tla RequiredCalls/AllowedProbes/ReplyOk (BashCheck.tla); the emitted function itself is modelled (BashVM.tla: design-level product with Words.tla whose disagreements are replayed in bash; BashStep.tla: trace validation of the script's own steps recorded through bash's DEBUG trap)",
             text="Commands are probes that log identity, argument count and both arguments and print fixed lines (plain, tab-separated descriptions, candidates with blanks). For each generated command line TLC decides that every required invocation happened with exactly the documented arguments, that no invocation happened at a point where the grammar does not expect that command, that candidates are the text before the first tab filtered by the typed text, and that earlier words are accepted at command points exactly when they are candidates.",
             ref="7/C17", note="Only bash is executed; commands have fixed output; the number of invocations per command is not constrained (only their arguments and whether they are justified).")
CHECKS["C05"] = dict(technique="TLC-enumerated layouts (LayoutGen.tla) and literal spellings (Spell.tla) printed by the generator; the tree recorded from Grammar::parse is compared with the printed tree by TLC (TreeCheck.tla)",
             text="Every normal-form tree up to a node bound, random deeper grammars under TLC-enumerated layouts (each single deviating boundary from a blank menu with comments / form feed / tabs / newlines, random multi-deviation layouts), `=`/`::=`, optional final `;`, redundant parentheses, permuted statements, all literal class strings with all dot spellings in four following contexts, and all short description strings are parsed by the real parser; TLC decides printed tree = parsed tree for each.",
             ref="7/C05", note="Bounded tree size / string length; trees are kept in the parser's normal form; spans are not compared (C13).")
CHECKS["C08"] = dict(technique="TLC evaluates Meaning.Verdicts (declarative well-formedness over the generator's tree) against the recorded exit status and diagnostic class of every run (VerdictCheck.tla); mechanism model of the cycle search / resolution order (Resolve.tla, all iteration orders) with trace validation of the instrumented code's steps and verdicts on definition-graph grammars (ResolveTrace.tla)",
             text="Clean-by-construction grammars, each also with one planted mistake per class at a random site (variant or used definition, behind 0-3 definitions, under any operator; cycles of length 1-4 with and without an entry point; every definition graph over three names and random ones over 4-7), x 4 shells: the command must exit 0 exactly when the specification finds no mistake, and otherwise exit 1 with a diagnostic whose class is one of the mistakes the specification finds; the library's Error variant must agree.",
             ref="7/C08", note="The planted class is only a sanity condition on the oracle; regions the property leaves open (plain non-command definition of a specialised nonterminal, `p (q|r)` inside a word) are skipped or not generated; runs go through main.rs in-process with confirmation by the real binary.")
CHECKS["C13"] = dict(technique="TLC-chosen layouts (LayoutGen.tla); Syntax.Starts recomputes token positions; every located stderr line is validated by TLC against the tokens of the sort Usage names as culprit (DiagCheck.tla)",
             text="For grammars over a literal pool that needs backslash escapes, with one planted located mistake or warning each, printed under TLC-chosen layouts, every `<path>:<line>:<col>:` line of the command's stderr must be the start of a token of the right sort (reference / definition left-hand side / command name / shell name / literal / first token of the unparsable statement) as computed by the specification from the token list and the blank choices, and the echoed source line must be that line.",
             ref="7/C13", note="Culprit lines are ASCII; the echoed line is compared as plain text by the harness; multi-line span marks of the renderer are tolerated.")
CHECKS["C15"] = dict(technique="Exhaustive reference structures; TLC compares the recorded warnings, mapped to names through Syntax.Starts, with Usage.Undefined/UnusedPlain/UnusedSpec (DiagCheck.tla) and validates script equality with the twin grammar through the memo model (MemoCheck.tla)",
             text="All 400 reference structures of two nonterminals ({plain, @target, @other, undefined} x {direct, inside a word, via a used definition, via an unused definition, nowhere}) x 4 shells: the set of warnings equals what the specification derives, each exactly once at an occurrence of the name of the right sort, exit status 0, and the script is byte-identical to that of the twin grammar without the unreachable definitions.",
             ref="7/C15", note="Exhaustive for two names (random over four names in thorough); canonical layout (layouts are C13's subject).")
CHECKS["C06"] = dict(technique="TLC enumerates token-edit sequences (EditGen.tla) over seed grammars; every recorded (options, terminal state) of the command is validated as a terminal state of the phase/effect machine Cli.tla (CliCheck.tla), whose invariants TLC checks on the same exploration",
             text="All single token edits (delete, duplicate, swap, insert bracket/operator, truncate, splice bytes) of the bundled examples, generated clean grammars and grammars with a planted mistake of every class, all edit pairs of tiny seeds, token soups, deep nesting, long lines and malformed encodings, x shell x destination kind x Graphviz options: every run must end in a state the specification of the command admits (exit 0 with the complete script, or exit 1 with a diagnostic and an untouched destination).",
             ref="7/C06", note="Sampled to a budget for large seeds; nesting depth <= 500; runs go through main.rs in-process, every other-than-0/1 outcome and a random sample are re-run with the real (dev profile) binary.")
CHECKS["C10"] = dict(technique="Observation log of (grammar, shell, artefact) digests from separately started processes with differing environments, the in-process front end and repeated in-process compilation, validated by TLC against the memo model (MemoCheck.tla)",
             text="For the bundled examples and seeded large grammars x 4 shells x {script, --dfa, --regex}: all observations of one key are equal (first observation fixes the value).",
             ref="7/C10", note="A randomly seeded container would be caught only with the probability that two of the sampled processes order it differently and the order reaches the output; no hook events are compared yet.")
CHECKS["C14"] = dict(technique="TLC-chosen layouts (LayoutGen.tla) and generator recipes of one abstract grammar; script digests validated by TLC against the memo model keyed by (abstract grammar, shell) (MemoCheck.tla)",
             text="Per grammar and shell, the canonical file and its re-laid-out variants (blanks, tabs, newlines, comments, form feed at every token boundary; `::=`; final `;` dropped; redundant parentheses; permuted and moved definitions) must compile to byte-identical scripts.",
             ref="7/C14", note="Call variants keep their relative order; the version line of the script is not compared.")
CHECKS["C04"] = dict(technique="Script text read back by per-shell table readers; TLC product exploration recorded minimised automaton x automaton read from the script (Equiv.tla, mode min-script) + ScriptCheck.tla (registration, command bodies, nothing unaccounted for)",
             text="For every corpus grammar and each of the four emitters, the tables in the script text (literal list, descriptions, match tables, per-level completion tables, within-word functions incl. shared table sets, command function bodies, start state) are read with the shell's index base and double-quote rules, and TLC decides that they denote the same labelled language as the compiled automaton, for the main and every within-word automaton.",
             ref="7/C04", note="fish/zsh/pwsh are not installed: data is read, program text is not executed; acceptance is not embedded and not compared; C09's region (same literal at two levels) is skipped.")
CHECKS["C07"] = dict(technique="String constants located in the four scripts are decoded by TLC with Quote.tla's models of each shell's double-quote rules and compared with the grammar's texts (QuoteCheck.tla); bash additionally executed (bash -n, candidates, matching of glob-confusable words) and validated through BashCheck.tla",
             text="All strings up to a length bound over the character set the grammar syntax admits, as described top-level literals and as values inside a word: every constant in every script is terminated exactly at its end, contains no live expansion and reads back as the original text under the shell's documented rules; in bash the script parses, offers the literals character for character and matches a literal only by the identical word.",
             ref="7/C07", note="The fish, zsh and PowerShell decoders are a reading of the manuals (no interpreters here); string length <= 3 (4 sampled in thorough).")
CHECKS["C09"] = dict(technique="TLC character-level product exploration of every pair of outgoing literal / within-word items with different targets at every reachable state of the recorded minimised automaton (Overlap.tla); TLC-generated command lines answered by real bash on G and on G with `|` for `||`, validated by LevelsCheck.tla",
             text="(a) exact decision on the compiled automaton that no word has two readings leading to different states; (b) for TLC-generated command lines the `||` grammar and its `|` variant match the same lines and the `||` grammar's candidates are a non-empty-preserving subset.",
             ref="7/C09", note="Commands and any-word items are not paired (their priority is specified elsewhere); the unchanged tree has known findings here (symbol identity includes the fallback level; within-word expressions are identified by structure).")
CHECKS["C16"] = dict(technique="Both Graphviz files read by a strict DOT reader written from the DOT grammar; TLC compares the graph of --dfa with the recorded minimised automaton and the labels of --regex with the grammar's literals (DotCheck.tla)",
             text="Both files must be valid DOT; --dfa must show one node per state numbered with the shell's base, start and accepting marking, one labelled solid edge per literal/command/any-word transition whose label contains the literal text, and one cluster per within-word automaton entered and left by dashed edges at the right states; every literal must occur in a --regex node label.",
             ref="7/C16", note="Graphviz itself is not installed; how descriptions and levels are rendered inside labels is not prescribed.")
PENDING = {}

def main():
    props = [json.loads(l) for l in open(os.path.join(HERE, "properties.jsonl"))]
    checks = []
    na = []
    for p in props:
        pid = p["id"]
        if pid in CHECKS:
            c = CHECKS[pid]
            checks.append({
                "property_id": pid,
                "quick_cmd": "./check %s --tier quick" % pid,
                "thorough_cmd": "./check %s --tier thorough" % pid,
                "evidence_file": "/verif/evidence/%s.json" % pid,
                "replay_cmd_template": "./check %s --replay {path}" % pid,
                "engine": "tlc",
                "level_claimed": {"category": "model_checking", "text": c["text"], "design_ref": "DESIGN.md section " + c["ref"]},
                "level_note": c["note"],
                "technique": c["technique"],
            })
        else:
            na.append({"property_id": pid, "reason": PENDING.get(pid, "check not built yet in this round; planned per DESIGN.md section 7")})
    m = {
        "version": 1,
        "setup_cmd": "./check build",
        "hooks": {
            "guard": "cargo feature `verif` (off by default)",
            "enable": "harness crate /verif/harness depends on /repo with features = [\"verif\"] (read-only accessors; event sink complgen::verif filled by dfa_from_regex, do_minimize and get_nonterminals_resolution_order when enabled); the complgen binary used by the checks is built with the feature OFF",
            "baseline_off_cmd": "cd /repo && cargo test --workspace --no-fail-fast --offline",
            "source_commits": HOOK_COMMITS,
            "add_only": True,
        },
        "engines": [
            {"name": "tlc", "path": "/verif/spec", "serves_properties": sorted(CHECKS), "kind_free_text": "explicit TLA+ specification checked with TLC; implementation bound by trace validation of recorded artefacts (NDJSON) and replay of TLC-generated behaviours"},
        ],
        "checks": checks,
        "not_applicable": na,
        "notes": "All checks: ./check <id> --tier quick|thorough; exit 0 ok (KNOWN-FINDING lines possible), 1 with VIOLATION lines, 2 tool error. known_findings.json lists fixed and recorded defects.",
    }
    json.dump(m, open(os.path.join(HERE, "MANIFEST.json"), "w"), indent=1)

HOOK_COMMITS = ["74e87b2", "c98a0aa", "c6f531b", "30e24d5"]
if __name__ == "__main__":
    main()
