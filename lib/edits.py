# Token-level edits of a grammar text (the edit vocabulary of spec/EditGen.tla).  Inputs only.
import re

TOKEN = re.compile(rb'\{\{\{.*?\}\}\}|"(?:\\.|[^"\\])*"|<[^<>\s]*>|::=|\.\.\.|\|\||[()\[\]|;=]|#[^\n]*|(?:\\.|[^\s()\[\]<>|;"{}\\])+', re.S)
INS = [b"(", b")", b"[", b"]", b"<", b">", b"|", b"||", b"...", b";", b'"', b"{{{"]
SPLICE = [b"\xff\xfe", b"\x00", b"\r\n", b"\\", b"\\q", b"{{{ x", b"\xc3", b"<@>"]


def tokenize(data):
    """-> list of (preceding bytes, token bytes); trailing bytes returned separately"""
    out = []
    pos = 0
    for m in TOKEN.finditer(data):
        out.append((data[pos:m.start()], m.group(0)))
        pos = m.end()
    return out, data[pos:]


def apply(toks, trailer, edits):
    toks = list(toks)
    for e in edits:
        op, i, k = e[0], e[1], e[2]
        if op == "del" and 1 <= i <= len(toks):
            del toks[i - 1]
        elif op == "dup" and 1 <= i <= len(toks):
            toks.insert(i, (b" ", toks[i - 1][1]))
        elif op == "swap" and 1 <= i < len(toks):
            a, b = toks[i - 1], toks[i]
            toks[i - 1], toks[i] = (a[0], b[1]), (b[0], a[1])
        elif op == "ins":
            toks.insert(min(i - 1, len(toks)), (b" ", INS[k - 1]))
        elif op == "trunc":
            toks = toks[:i]
            trailer = b""
        elif op == "splice":
            toks.insert(min(i - 1, len(toks)), (b"", SPLICE[k - 1]))
    return b"".join(p + t for p, t in toks) + trailer
