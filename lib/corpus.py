# Grammar corpora: exhaustive small trees and seeded random grammars (generator configuration is
# reported in the evidence).  Only inputs are produced here.
import random
import gen
from gen import L, R, C

PROBE_CMDS = ["__probe p1", "__probe p2", "__probe p3"]


def finish(c, cid, **extra):
    c["id"] = cid
    for v in c["ast"]["variants"]:
        v["namecp"] = [ord(x) for x in v["name"]]
    c.update(extra)
    return c


EXH_LEAVES = [L("a"), L("ab"), L("b", "dl"), R("X"), R("U"), R("_"), C("__probe p1")]
EXH_OPS = ["seq", "alt", "fb", "sub", "opt", "many", "dd"]
EXH_DEFS = [("X", "", ("alt", [L("x1"), L("x2")]))]


def exhaustive(nmax, leaves=None, ops=None, defs=None, shell="bash", start_id=1, limit=None, rnd=None):
    leaves = leaves or EXH_LEAVES
    ops = ops or EXH_OPS
    defs = EXH_DEFS if defs is None else defs
    memo = {}
    out = []
    trees = []
    for n in range(1, nmax + 1):
        for t in gen.enum_trees(n, leaves, ops, memo=memo):
            if gen.normal(t):
                trees.append(t)
    total = len(trees)
    if limit is not None and len(trees) > limit:
        rnd = rnd or random.Random(1)
        # keep all small ones, sample the largest size class
        small = [t for t in trees if gen.size(t) < nmax]
        big = [t for t in trees if gen.size(t) == nmax]
        keep = max(0, limit - len(small))
        trees = small + rnd.sample(big, min(keep, len(big)))
    for t in trees:
        c = gen.case([t], defs, shell=shell)
        out.append(finish(c, start_id + len(out), origin="exhaustive", tree_nodes=gen.size(t)))
    return out, total


def random_grammar(rnd, depth=4, shells=None, with_probes=True, p_spec=0.4, nvariants=None, ops=None, lits=None,
                   p_descr=0.15, allow_builtin_names=True):
    """one random, clean-by-construction grammar: (variants, defs)"""
    names = ["X", "Y", "Z", "W"]
    rnd.shuffle(names)
    ndefs = rnd.randint(0, 4)
    defnames = names[:ndefs]
    cmds = PROBE_CMDS if with_probes else ["echo c1", "echo c2"]
    # which names get command definitions / shell-specific definitions
    defs = []
    order = list(defnames)
    specials = []
    if allow_builtin_names and rnd.random() < 0.3:
        specials.append(rnd.choice(["PATH", "DIRECTORY"]))
    undefined = ["U", "_"] if rnd.random() < 0.6 else []
    for i, nm in enumerate(order):
        later = order[i + 1:]
        kind = rnd.random()
        if kind < 0.3:
            body = C(rnd.choice(cmds))
            defs.append((nm, "", body))
            if rnd.random() < p_spec:
                for sh in rnd.sample(gen.SHELLS, rnd.randint(1, 3)):
                    defs.append((nm, sh, C(rnd.choice(cmds) + " " + sh)))
        elif kind < 0.4:
            # only shell-specific definitions
            for sh in rnd.sample(gen.SHELLS, rnd.randint(1, 3)):
                defs.append((nm, sh, C(rnd.choice(cmds) + " " + sh)))
        else:
            g = gen.RandGen(rnd, refs=later + specials + undefined, cmds=cmds, ops=ops, lits=lits, p_descr=p_descr)
            for _ in range(20):
                body = g.tree(rnd.randint(1, depth - 1))
                if gen.normal(body) and gen.dd_ok_everywhere(body):
                    break
            else:
                body = L("z")
            defs.append((nm, "", body))
    for sp in specials:
        if rnd.random() < 0.3:
            for sh in rnd.sample(gen.SHELLS, rnd.randint(1, 2)):
                defs.append((sp, sh, C(rnd.choice(cmds) + " " + sh)))
    g = gen.RandGen(rnd, refs=order + specials + undefined, cmds=cmds, ops=ops, lits=lits, p_descr=p_descr)
    nv = nvariants or (1 if rnd.random() < 0.7 else rnd.randint(2, 3))
    variants = []
    for _ in range(nv):
        for _ in range(30):
            t = g.tree(depth)
            if gen.normal(t) and gen.dd_ok_everywhere(t):
                break
        else:
            t = L("z")
        variants.append(t)
    rnd.shuffle(defs)
    return variants, defs


def clean(variants, defs):
    return all(gen.clean_tree(v, defs) for v in variants) and all(gen.clean_tree(d[2], defs) for d in defs if d[1] == "")


def leaves_count(variants, defs):
    """size of the full expansion (number of leaves), capped"""
    plain = {d[0]: d[2] for d in defs if d[1] == ""}

    def cnt(e, depth):
        if depth > 10:
            return 10 ** 6
        k = e[0]
        if k == "ref" and e[1] in plain:
            return cnt(plain[e[1]], depth + 1)
        ks = gen.kids(e)
        if not ks:
            return 1
        return sum(cnt(c, depth) for c in ks)
    return sum(cnt(v, 0) for v in variants)


def random_cases(n, seed, start_id=1, shells=("bash",), max_leaves=48, **kw):
    rnd = random.Random(seed)
    out = []
    tries = 0
    while len(out) < n and tries < n * 50:
        tries += 1
        variants, defs = random_grammar(rnd, **kw)
        if not clean(variants, defs) or leaves_count(variants, defs) > max_leaves:
            continue
        for sh in shells:
            c = gen.case(variants, defs, shell=sh)
            out.append(finish(c, start_id + len(out), origin="random"))
            if len(out) >= n:
                break
    return out


# ---------------------------------------------------------------------------------------------
# corpora for execution in bash: prefix-free literal pool, probe commands with fixed output
BASH_LITS = ["--x", "-y", "foo", "bar", "--opt=", "c", "+z", "k=", ","]


def probe_cmds(classes=("p1", "p2", "p5", "p6"), n=4):
    # every command has its own candidate set (overlapping outputs of different commands are an open region)
    return ['__probe c%d %s "$@"' % (i + 1, classes[i % len(classes)]) for i in range(min(n, len(classes)))]


def annotate_bash(c, probe_classes):
    """code points for literals, probe identity and output lines for command nodes"""
    for n in c["ast"]["nodes"]:
        n["cp"] = [ord(ch) for ch in n["t"]] if n["k"] == "lit" else []
        n["lines"] = []
        n["probe"] = ""
        if n["k"] == "cmd":
            parts = n["t"].split()
            if len(parts) >= 3 and parts[0] == "__probe":
                n["probe"] = parts[1]
                n["lines"] = [[ord(ch) for ch in l] for l in probe_classes[parts[2]]]
    return c


def bash_random_cases(n, seed, probe_classes, classes=("p1", "p2", "p5", "p6"), start_id=1, depth=4, max_leaves=40, lits=None, ops=None):
    rnd = random.Random(seed)
    out = []
    tries = 0
    cmds = probe_cmds(classes)
    global PROBE_CMDS
    saved = PROBE_CMDS
    PROBE_CMDS = cmds
    try:
        while len(out) < n and tries < n * 60:
            tries += 1
            variants, defs = random_grammar(rnd, depth=depth, lits=lits or BASH_LITS, p_descr=0.05, allow_builtin_names=False, ops=ops)
            # shell-specific command texts must be probes too
            defs = [(nm, sh, C('__probe c%d%s %s "$@"' % (5 + SHELL_IDX[sh], nm.lower(), SPEC_CLASS[sh])) if sh else body) for (nm, sh, body) in defs]
            if not clean(variants, defs) or leaves_count(variants, defs) > max_leaves:
                continue
            c = gen.case(variants, defs, shell="bash")
            out.append(annotate_bash(finish(c, start_id + len(out), origin="random"), probe_classes))
    finally:
        PROBE_CMDS = saved
    return out


SHELL_IDX = {"bash": 0, "fish": 1, "zsh": 2, "pwsh": 3}
SPEC_CLASS = {"bash": "p7", "fish": "p8", "zsh": "p8", "pwsh": "p8"}


def bash_exhaustive(nmax, probe_classes, start_id=1, limit=None, rnd=None, leaves=None, ops=None, defs=None):
    leaves = leaves or [L("foo"), L("--x"), L("bar"), R("X"), R("U"), C('__probe c1 p1 "$@"')]
    defs = [("X", "", ("alt", [L("x1"), L("x2")]))] if defs is None else defs
    cases, total = exhaustive(nmax, leaves=leaves, ops=ops or ["seq", "alt", "fb", "sub", "opt", "many"], defs=defs,
                              start_id=start_id, limit=limit, rnd=rnd)
    return [annotate_bash(c, probe_classes) for c in cases], total
