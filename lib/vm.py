# BashVM: tables of an emitted bash script in the shape spec/BashVM.tla reads, conformance run (VmCheck.tla) and
# design-level exploration (VmExplore.tla).  No oracle here: tables are projected from the script text by lib/readers.py.
import json, re
import core, readers, bashdrv

PROBE = re.compile(r"__probe\s+(\S+)\s+(\S+)")


def tables(script_text, probe_classes, command="cmd"):
    rd = readers.read_script(script_text, "bash", command)
    if not rd.get("ok"):
        return None

    def conv(A):
        lits = [bashdrv.cp(l["t"]) for l in A["literals"]]
        base = A["literals"][0]["id"] if A["literals"] else 0
        tr = []
        for t in A["tr"]:
            l = t["l"]
            lab = {"k": "cmd" if l["k"] == "compadd" else l["k"], "lid": 0, "sub": 0, "lv": max(l["lv"], 0), "lines": []}
            if l["k"] == "lit":
                lab["lid"] = l["iid"] - base + 1
            elif l["k"] == "sub":
                lab["sub"] = l["sub"]
            elif l["k"] in ("cmd", "compadd"):
                m = PROBE.search(l["t"])
                if m and m.group(2) in probe_classes:
                    lab["lines"] = [bashdrv.cp(x) for x in probe_classes[m.group(2)]]
            tr.append({"f": t["f"], "t": t["t"], "l": lab})
        return {"start": A["start"], "lits": lits, "tr": tr}
    vm = conv(rd["main"])
    vm["subs"] = [conv(s) for s in rd["subs"]]
    vm["subids"] = list(rd.get("sub_ids", []))       # wrapper numbers `_<cmd>_subword_N`, aligned with subs
    return vm


def conformance(records, shards=6):
    """records: executed cases with 'vm' and 'queries' (bashdrv.to_record shape) -> (TlcResult, drift list, nconform, nunsure)"""
    recs = [{"id": r["id"], "vm": r["vm"], "queries": [{"words": q["words"], "prefix": q["prefix"], "wb": q["wb"], "rc": q["rc"], "reply": q["reply"]}
                                                       for q in r["queries"]]} for r in records if r.get("vm")]
    if not recs:
        return None, [], 0, 0
    res = core.run_tlc_sharded("VmCheck.tla", "VmCheck.cfg", recs, shards=shards, workers=2, prefix="vmcheck", timeout=2400)
    drift = [json.loads(m[0]) for m in res.tagged("DRIFT")]
    return res, drift, len(res.tagged("CONFORMS")), len(res.tagged("UNSURE"))


def explore(cases, depth=3, shards=8):
    """cases: corpus records (with ast annotations for Words.tla) carrying 'vm' -> (TlcResult, {id: [(words, prefix)]})"""
    strip = [{k: v for k, v in c.items() if not k.startswith("_")} for c in cases if c.get("vm")]
    if not strip:
        return None, {}
    res = core.run_tlc_sharded("VmExplore.tla", "VmExplore.cfg", strip, shards=shards, workers=2, prefix="vmexplore", timeout=3000,
                               env={"VM_DEPTH": str(depth)})
    pred = {}
    for m in res.tagged("PREDICTION"):
        d = json.loads(m[0])
        for b in d["bad"]:
            words = [bashdrv.uncp(w) for w in d["hist"]] + [bashdrv.uncp(w) for w in b["words"]]
            pred.setdefault(d["id"], []).append((words, bashdrv.uncp(b["prefix"]), b.get("tag", "")))
    return res, pred
