# Readers for the emitted scripts: projection of script TEXT to data (no oracle).
import re


def command_bodies(text, shell, command):
    """bodies of the _<command>_cmd_<N> functions -> {N: body text (stripped)}"""
    lines = text.split("\n")
    out = {}
    if shell == "fish":
        head = re.compile(r"^function _%s_cmd_(\d+)\s*$" % re.escape(command))
        end = "end"
    elif shell == "pwsh":
        head = re.compile(r"^function _%s_cmd_(\d+) \{\s*$" % re.escape(command))
        end = "}"
    else:
        head = re.compile(r"^_%s_cmd_(\d+) \(\) \{\s*$" % re.escape(command))
        end = "}"
    i = 0
    while i < len(lines):
        m = head.match(lines[i])
        if m:
            j = i + 1
            body = []
            while j < len(lines) and lines[j] != end:
                body.append(lines[j])
                j += 1
            out[int(m.group(1))] = "\n".join(body).strip()
            i = j
        i += 1
    return out
