# Grammar generator: trees (in the parser's normal form) -> tokens -> .usage text + arena JSON.
# No oracle lives here: the generator only produces inputs and their *syntactic* description
# (the tree it printed and where each token went).  Meaning is decided by the TLA+ modules.
#
# Tree constructors (nested tuples):
#   ("lit", text, descr|None)  ("ref", name)  ("cmd", text)
#   ("seq", [..]) ("alt", [..]) ("fb", [..]) ("sub", [..])  ("opt", x) ("many", x) ("dd", x, descr)
import random

SHELLS = ["bash", "fish", "zsh", "pwsh"]


def L(t, d=None):
    return ("lit", t, d)


def R(n):
    return ("ref", n)


def C(t):
    return ("cmd", t)


def kids(e):
    k = e[0]
    if k in ("seq", "alt", "fb", "sub"):
        return list(e[1])
    if k in ("opt", "many", "dd"):
        return [e[1]]
    return []


def walk(e):
    yield e
    for c in kids(e):
        yield from walk(c)


def size(e):
    return sum(1 for _ in walk(e))


# ---------------------------------------------------------------------------------------------
# normal form (what Grammar::parse can produce), see DESIGN.md A.6
def head_is_lit_text(e):
    """first token of e's printed form is a bare literal text"""
    k = e[0]
    if k == "lit":
        return True
    if k in ("sub",):
        return head_is_lit_text(e[1][0])
    if k == "many":
        return e[1][0] == "lit" or False
    if k == "dd":
        return head_is_lit_text(e[1]) if e[1][0] in ("lit", "sub", "many") else False
    return False


def tail_is_bare_lit(e):
    """last token of e's printed form is a description-free literal text"""
    k = e[0]
    if k == "lit":
        return e[2] is None
    if k == "sub":
        return tail_is_bare_lit(e[1][-1])
    return False


def tail_lit_syn(e):
    k = e[0]
    if k == "lit":
        return True
    if k in ("seq", "sub"):
        return tail_lit_syn(e[1][-1])
    return False


def head_lit_syn(e):
    k = e[0]
    if k == "lit":
        return True
    if k in ("seq", "sub"):
        return head_lit_syn(e[1][0])
    if k in ("many", "dd"):
        return head_lit_syn(e[1])
    return False


def normal(e, insub=False):
    k = e[0]
    if k == "lit":
        return len(e[1]) > 0
    if k in ("ref", "cmd"):
        return True
    if k in ("seq", "alt", "fb"):
        return len(e[1]) >= 2 and all(normal(c, insub) for c in e[1])
    if k == "sub":
        if insub or len(e[1]) < 2:
            return False
        for a, b in zip(e[1], e[1][1:]):
            if tail_lit_syn(a) and head_lit_syn(b):
                return False  # `a(b)`: juxtaposed literals, not generated (DESIGN.md C08 limits)
        return all(normal(c, True) for c in e[1])
    if k in ("opt", "many"):
        if k == "many" and e[1][0] == "many":
            return False  # a...... is not printable without changing the tree
        return normal(e[1], insub)
    if k == "dd":
        c = e[1]
        if c[0] == "lit" and c[2] is None:
            return False
        if tail_is_bare_lit(c):
            return False
        if c[0] == "many" and tail_is_bare_lit(c[1]) and c[1][0] == "lit":
            pass
        return normal(c, insub)
    return False


# ---------------------------------------------------------------------------------------------
# printer: tree -> token list.  Each token: dict(s=text, pre=none|opt|req, kind, node)
# pre: blank policy before the token ("none": juxtaposition, "opt": allowed, "req": required)
def esc_descr(s):
    return s.replace("\\", "\\\\").replace('"', '\\"')


RESERVED = set('()[]<>|;"{}\\')


def esc_lit(s):
    out = []
    i = 0
    while i < len(s):
        ch = s[i]
        if ch in RESERVED:
            out.append("\\" + ch)
        elif ch == ".":
            # a run of >= 3 dots must not appear raw
            j = i
            while j < len(s) and s[j] == ".":
                j += 1
            run = j - i
            if run >= 3:
                out.append("\\." * run)
            else:
                out.append("." * run)
            i = j
            continue
        else:
            out.append(ch)
        i += 1
    return "".join(out)


PREC = {"fb": 0, "alt": 1, "seq": 2, "dd": 3, "sub": 4, "many": 5}


def prec(e, insub):
    k = e[0]
    if k in PREC:
        if k == "seq" and insub and juxtaposable(e):
            return 4
        return PREC[k]
    return 6  # atoms: lit ref cmd opt


def juxtaposable(e):
    """a seq node inside a word that can be written by juxtaposition (no two adjacent bare literals)"""
    cs = e[1]

    def ends_bare(x):        # also through a (parenthesised) sequence: `(.. b)c` would put the literals b and c side by side
        return tail_is_bare_lit(x) or (x[0] == "seq" and ends_bare(x[1][-1]))

    def starts_lit(x):
        return head_is_lit_text(x) or (x[0] == "seq" and starts_lit(x[1][0]))
    for a, b in zip(cs, cs[1:]):
        if ends_bare(a) and starts_lit(b):
            return False
    # every factor must be printable as a unary expression or be parenthesised; always possible
    return True


class Printer:
    def __init__(self, wrap=None, wrap_inner=None):
        self.toks = []
        self.pending = "opt"
        self.wrap = set(wrap or ())      # node ids to put redundant parentheses around (outside words only)
        self.wrap_inner = set(wrap_inner or ())   # described literals written `(lit) "descr"` (outside words only)
        self.wrapped = set()

    def tok(self, s, kind, node=None, pre=None):
        p = pre if pre is not None else self.pending
        self.toks.append({"s": s, "pre": p, "kind": kind, "node": node})
        self.pending = "none"

    def need(self, p):
        # strongest requirement wins: req > opt > none, except explicit none overrides opt
        order = {"none": 0, "opt": 1, "req": 2}
        if order[p] > order[self.pending]:
            self.pending = p

    def expr(self, e, ctx, insub, ids):
        """ctx: minimal precedence allowed without parentheses"""
        nid = ids.get(id(e))
        p = prec(e, insub)
        if nid in self.wrap and not insub and nid not in self.wrapped:
            self.wrapped.add(nid)
            self.tok("(", "lparen", nid)
            self.pending = "opt"
            self.expr(e, 0, insub, ids)
            self.need("opt")
            self.tok(")", "rparen", nid)
            return
        if p < ctx:
            self.tok("(", "lparen", nid)
            self.pending = "opt"
            self.expr(e, 0, insub, ids)
            self.need("opt")
            self.tok(")", "rparen", nid)
            return
        k = e[0]
        if k == "lit":
            if nid in self.wrap_inner and e[2] is not None and not insub:
                self.tok("(", "lparen", nid)
                self.pending = "opt"
                self.tok(esc_lit(e[1]), "lit", nid)
                self.need("opt")
                self.tok(")", "rparen", nid)
            else:
                self.tok(esc_lit(e[1]), "lit", nid)
            if e[2] is not None:
                self.need("opt")
                self.tok('"' + esc_descr(e[2]) + '"', "descr", nid, pre="opt" if self.pending == "none" else None)
        elif k == "ref":
            self.tok("<" + e[1] + ">", "ref", nid)
        elif k == "cmd":
            self.tok("{{{ " + e[1] + " }}}", "cmd", nid)
        elif k == "opt":
            self.tok("[", "lbrack", nid)
            self.pending = "opt"
            self.expr(e[1], 0, insub, ids)
            self.need("opt")
            self.tok("]", "rbrack", nid)
        elif k == "many":
            self.expr(e[1], 6, insub, ids)
            self.need("opt")
            self.tok("...", "dots", nid, pre="opt" if self.pending == "none" else None)
        elif k == "dd":
            self.expr(e[1], 4, insub, ids)
            self.need("opt")
            self.tok('"' + esc_descr(e[2]) + '"', "descr", nid, pre="opt" if self.pending == "none" else None)
        elif k == "sub":
            for i, c in enumerate(e[1]):
                if i > 0:
                    self.pending = "none"
                self.factor(c, ids)
        elif k == "seq":
            if insub and juxtaposable(e):
                for i, c in enumerate(e[1]):
                    if i > 0:
                        self.pending = "none"
                    self.factor(c, ids)
            else:
                for i, c in enumerate(e[1]):
                    if i > 0:
                        self.pending = "req"
                    self.expr(c, 3, insub, ids)
        elif k == "alt":
            for i, c in enumerate(e[1]):
                if i > 0:
                    self.need("opt")
                    self.tok("|", "bar", nid, pre="opt" if self.pending == "none" else None)
                    self.pending = "opt"
                self.expr(c, 2, insub, ids)
        elif k == "fb":
            for i, c in enumerate(e[1]):
                if i > 0:
                    self.need("opt")
                    self.tok("||", "bar2", nid, pre="opt" if self.pending == "none" else None)
                    self.pending = "opt"
                self.expr(c, 1, insub, ids)
        else:
            raise Exception(k)

    def factor(self, c, ids):
        """one juxtaposed factor of a word: a unary expression"""
        forced = self.pending == "none"
        start = len(self.toks)
        if c[0] == "lit" and forced and self.toks and self.toks[-1]["kind"] == "lit":
            # two adjacent bare literals would lex as one: parenthesise the second
            self.tok("(", "lparen", ids.get(id(c)))
            self.pending = "opt"
            self.expr(c, 0, True, ids)
            self.need("opt")
            self.tok(")", "rparen", ids.get(id(c)))
        else:
            self.expr(c, 5, True, ids)
        if forced and len(self.toks) > start:
            self.toks[start]["pre"] = "none"


def assign_ids(e, nodes, ids):
    """arena, children first; returns 1-based id"""
    k = e[0]
    cs = [assign_ids(c, nodes, ids) for c in kids(e)]
    if k == "lit":
        n = {"k": "lit", "t": e[1], "d": e[2] or "", "hd": e[2] is not None, "c": []}
    elif k == "ref":
        n = {"k": "ref", "t": e[1], "d": "", "hd": False, "c": []}
    elif k == "cmd":
        n = {"k": "cmd", "t": e[1], "d": "", "hd": False, "c": []}
    elif k == "dd":
        n = {"k": "dd", "t": e[2], "d": "", "hd": False, "c": cs}
    else:
        n = {"k": k, "t": "", "d": "", "hd": False, "c": cs}
    nodes.append(n)
    ids[id(e)] = len(nodes)
    return len(nodes)


def statements_tokens(variants, defs, assign="=", semi=True, order=None, wrap=None, wrap_inner=None):
    """variants: [(cmdname, tree)], defs: [(name, shell|'' , tree)] -> tokens, arena info"""
    nodes, ids = [], {}
    vs, ds = [], []
    for (name, t) in variants:
        vs.append({"name": name, "root": assign_ids(t, nodes, ids)})
    for (name, sh, t) in defs:
        ds.append({"name": name, "sh": sh, "root": assign_ids(t, nodes, ids)})
    p = Printer(wrap, wrap_inner)
    stm = []
    if order is None:
        order = [("v", i) for i in range(len(variants))] + [("d", i) for i in range(len(defs))]
    for which, idx in order:
        if which == "v":
            name, t = variants[idx]
            p.pending = "opt"
            p.tok(esc_lit(name), "cmdname", None)
            p.toks[-1]["stmt"] = len(stm)
            p.pending = "req"
            p.expr(t, 0, False, ids)
            p.need("opt")
            p.tok(";", "semi", None, pre="opt" if p.pending == "none" else None)
            stm.append(("variant", idx))
        else:
            name, sh, t = defs[idx]
            p.pending = "opt"
            p.tok("<" + name + ("@" + sh if sh else "") + ">", "defname", None)
            p.toks[-1]["stmt"] = len(stm)
            p.pending = "opt"
            p.tok(assign if isinstance(assign, str) else assign[idx % len(assign)], "assign", None)
            p.pending = "opt"
            p.expr(t, 0, False, ids)
            p.need("opt")
            p.tok(";", "semi", None, pre="opt" if p.pending == "none" else None)
            stm.append(("def", idx))
    if not semi and p.toks and p.toks[-1]["kind"] == "semi":
        p.toks.pop()
    return p.toks, {"nodes": nodes, "variants": vs, "defs": ds}


def layout_default(toks):
    """canonical layout: one statement per line, single spaces where blanks are required or customary"""
    out = []
    for i, t in enumerate(toks):
        if i == 0:
            pre = ""
        elif toks[i - 1]["kind"] == "semi":
            pre = "\n"
        elif t["pre"] == "req":
            pre = " "
        elif t["pre"] == "opt":
            pre = " " if t["kind"] in ("bar", "bar2", "descr", "assign") or toks[i - 1]["kind"] in ("bar", "bar2", "assign") else ""
        else:
            pre = ""
        out.append(pre + t["s"])
    return "".join(out) + "\n"


def place(toks, blanks):
    """lay tokens out with explicit blank strings (len(toks)+1 entries, last = trailer);
    returns text and for each token its (line, col) 1-based start and end col"""
    text = []
    line, col = 1, 1
    pos = []

    def adv(s):
        nonlocal line, col
        for ch in s:
            if ch == "\n":
                line += 1
                col = 1
            else:
                col += 1

    for t, b in zip(toks, blanks):
        text.append(b)
        adv(b)
        l0, c0 = line, col
        text.append(t["s"])
        adv(t["s"])
        pos.append((l0, c0, line, col))
    text.append(blanks[len(toks)] if len(blanks) > len(toks) else "")
    return "".join(text), pos


def default_blanks(toks):
    bl = []
    for i, t in enumerate(toks):
        if i == 0:
            bl.append("")
        elif toks[i - 1]["kind"] == "semi":
            bl.append("\n")
        elif t["pre"] == "req":
            bl.append(" ")
        elif t["pre"] == "opt":
            bl.append(" " if t["kind"] in ("bar", "bar2", "descr", "assign") or toks[i - 1]["kind"] in ("bar", "bar2", "assign") else "")
        else:
            bl.append("")
    bl.append("\n")
    return bl


def case(variants, defs=(), shell="bash", cmd="cmd", named=False, **extra):
    """variants: expression trees (command name `cmd`), or (name, tree) pairs when named=True"""
    vs = list(variants) if named else [(cmd, v) for v in variants]
    toks, ast = statements_tokens(vs, list(defs))
    c = {"usage": layout_default(toks), "shell": shell, "ast": ast}
    c.update(extra)
    return c


# ---------------------------------------------------------------------------------------------
# cleanliness by construction (the region C08's converse clause describes); conservative
def clean_tree(e, defs, insub=False, last_in_word=True, depth=0):
    """conservative syntactic sufficient condition for 'free of all listed mistakes' w.r.t. words:
    inside a word no seq with a bare literal child next to a literal, placeholders only last"""
    k = e[0]
    if depth > 12:
        return False
    if k == "lit" or k == "cmd":
        return True
    if k == "ref":
        d = [x for x in defs if x[0] == e[1] and x[1] == ""]
        if d:
            return clean_tree(d[0][2], defs, insub, last_in_word, depth + 1)
        spec_or_builtin = any(x[0] == e[1] and x[1] != "" for x in defs) or e[1] in ("PATH", "DIRECTORY")
        if spec_or_builtin:
            return True  # may be a command for some shells, a placeholder for others
        return (not insub) or last_in_word
    if k == "sub":
        cs = e[1]
        return all(clean_tree(c, defs, True, last_in_word and i == len(cs) - 1, depth) for i, c in enumerate(cs))
    if k == "seq":
        cs = e[1]
        if insub:
            for a, b in zip(cs, cs[1:]):
                if ends_lit(a, defs) and starts_lit(b, defs):
                    return False
        return all(clean_tree(c, defs, insub, last_in_word and i == len(cs) - 1, depth) for i, c in enumerate(cs))
    if k in ("alt", "fb"):
        return all(clean_tree(c, defs, insub, last_in_word, depth) for c in e[1])
    if k == "opt":
        return clean_tree(e[1], defs, insub, last_in_word, depth)
    if k == "many":
        return clean_tree(e[1], defs, insub, False if insub else last_in_word, depth)
    if k == "dd":
        return clean_tree(e[1], defs, insub, last_in_word, depth)
    return False


def _def(defs, name):
    d = [x for x in defs if x[0] == name and x[1] == ""]
    return d[0][2] if d else None


def ends_lit(e, defs, depth=0):
    k = e[0]
    if depth > 12:
        return True
    if k == "lit":
        return True
    if k in ("seq", "sub"):
        return ends_lit(e[1][-1], defs, depth)
    if k in ("alt", "fb"):
        return any(ends_lit(c, defs, depth) for c in e[1])
    if k in ("opt", "many", "dd"):
        return ends_lit(e[1], defs, depth)
    if k == "ref":
        d = _def(defs, e[1])
        return ends_lit(d, defs, depth + 1) if d else False
    return False


def starts_lit(e, defs, depth=0):
    k = e[0]
    if depth > 12:
        return True
    if k == "lit":
        return True
    if k in ("seq", "sub"):
        return starts_lit(e[1][0], defs, depth)
    if k in ("alt", "fb"):
        return any(starts_lit(c, defs, depth) for c in e[1])
    if k in ("opt", "many", "dd"):
        return starts_lit(e[1], defs, depth)
    if k == "ref":
        d = _def(defs, e[1])
        return starts_lit(d, defs, depth + 1) if d else False
    return False


# ---------------------------------------------------------------------------------------------
# exhaustive enumeration of normal-form trees with exactly n nodes
def compositions(n, kmin, kmax):
    """ordered tuples of positive ints summing to n with kmin..kmax parts"""
    def rec(rem, parts):
        if parts == 0:
            if rem == 0:
                yield ()
            return
        for a in range(1, rem - parts + 2):
            for r in rec(rem - a, parts - 1):
                yield (a,) + r
    for k in range(kmin, kmax + 1):
        yield from rec(n, k)


def enum_trees(n, leaves, ops, insub=False, memo=None, descrs=("d1",), max_arity=3):
    """all trees with exactly n nodes; ops subset of seq alt fb sub opt many dd"""
    if memo is None:
        memo = {}
    key = (n, insub)
    if key in memo:
        return memo[key]
    out = []
    if n == 1:
        out = list(leaves)
    else:
        for u in ("opt", "many"):
            if u in ops:
                for t in enum_trees(n - 1, leaves, ops, insub, memo, descrs, max_arity):
                    if u == "many" and t[0] == "many":
                        continue
                    out.append((u, t))
        if "dd" in ops:
            for t in enum_trees(n - 1, leaves, ops, insub, memo, descrs, max_arity):
                for d in descrs:
                    cand = ("dd", t, d)
                    if dd_documented(cand):
                        out.append(cand)
        for op in ("seq", "alt", "fb", "sub"):
            if op not in ops:
                continue
            if op == "sub" and insub:
                continue
            for parts in compositions(n - 1, 2, max_arity):
                def rec(i):
                    if i == len(parts):
                        yield []
                        return
                    for t in enum_trees(parts[i], leaves, ops, insub or op == "sub", memo, descrs, max_arity):
                        for r in rec(i + 1):
                            yield [t] + r
                for cs in rec(0):
                    out.append((op, cs))
    memo[key] = out
    return out


def dd_documented(e):
    """description placement shapes the documentation fixes (DESIGN.md C02 limits)"""
    c = e[1]

    def item(x):
        if x[0] == "lit":
            return True
        if x[0] == "seq":
            return x[1][0][0] == "lit" and x[1][0][2] is None
        if x[0] == "sub":
            return x[1][0][0] == "lit" and x[1][0][2] is None and not tail_is_bare_lit(x)
        return False
    if c[0] == "alt":
        return all(item(x) for x in c[1])
    if c[0] == "seq":
        return c[1][0][0] == "lit" and c[1][0][2] is None
    if c[0] == "sub":
        return item(c)
    return False


def dd_ok_everywhere(e):
    return all(dd_documented(x) for x in walk(e) if x[0] == "dd")


# ---------------------------------------------------------------------------------------------
# random trees
class RandGen:
    def __init__(self, rnd, lits=None, refs=(), cmds=(), descrs=("d1", "d2"), ops=None, p_descr=0.15):
        self.r = rnd
        self.lits = lits or ["a", "b", "ab", "c", "--x", "-y", "foo", "bar", "--opt="]
        self.refs = list(refs)
        self.cmds = list(cmds)
        self.descrs = list(descrs)
        self.ops = ops or ["seq", "alt", "fb", "sub", "opt", "many", "dd"]
        self.p_descr = p_descr

    def leaf(self, insub, last):
        r = self.r
        x = r.random()
        if self.refs and x < 0.25:
            return R(r.choice(self.refs))
        if self.cmds and x < 0.4:
            return C(r.choice(self.cmds))
        d = r.choice(self.descrs) if (not insub and r.random() < self.p_descr) else None
        return L(r.choice(self.lits), d)

    def tree(self, depth, insub=False):
        r = self.r
        if depth <= 0 or r.random() < 0.25:
            return self.leaf(insub, True)
        ops = [o for o in self.ops if not (o == "sub" and insub)]
        op = r.choice(ops)
        if op in ("opt", "many"):
            t = self.tree(depth - 1, insub)
            if op == "many" and t[0] == "many":
                return t
            return (op, t)
        if op == "dd":
            # documented shapes only
            shape = r.choice(["alt", "seq", "sub"]) if not insub else "alt"
            if shape == "alt":
                cs = [self.dd_item(depth - 1, insub) for _ in range(r.randint(2, 3))]
                return ("dd", ("alt", cs), r.choice(self.descrs))
            if shape == "seq":
                cs = [L(r.choice(self.lits))] + [self.tree(depth - 2, insub) for _ in range(r.randint(1, 2))]
                return ("dd", ("seq", cs), r.choice(self.descrs))
            s = self.subword(depth - 1, first_lit=True)
            if tail_is_bare_lit(s):
                return s
            return ("dd", s, r.choice(self.descrs))
        if op == "sub":
            return self.subword(depth - 1)
        n = r.randint(2, 3)
        return (op, [self.tree(depth - 1, insub) for _ in range(n)])

    def dd_item(self, depth, insub):
        r = self.r
        x = r.random()
        if x < 0.6 or insub:
            return L(r.choice(self.lits), r.choice(self.descrs) if r.random() < 0.2 else None)
        if x < 0.8:
            return ("seq", [L(r.choice(self.lits))] + [self.tree(depth - 1, insub) for _ in range(r.randint(1, 2))])
        s = self.subword(depth - 1, first_lit=True)
        return s if not tail_is_bare_lit(s) else L(r.choice(self.lits))

    def subword(self, depth, first_lit=False):
        """a word: 2..3 factors, no two adjacent literals, placeholders only last"""
        r = self.r
        n = r.randint(2, 3)
        fs = []
        for i in range(n):
            prev_lit = bool(fs) and ends_lit(fs[-1], [])
            if i == 0 and first_lit:
                fs.append(L(r.choice(self.lits)))
                continue
            choices = []
            if not prev_lit:
                choices += ["lit"] * 3
            choices += ["alt", "alt", "opt"]
            if self.cmds:
                choices.append("cmd")
            if self.refs:
                choices.append("ref")
            c = r.choice(choices)
            if c == "lit":
                fs.append(L(r.choice(self.lits)))
            elif c == "cmd":
                fs.append(C(r.choice(self.cmds)))
            elif c == "ref":
                fs.append(R(r.choice(self.refs)))
            elif c == "opt":
                inner = self.sub_alt(depth - 1, prev_lit)
                fs.append(("opt", inner))
            else:
                fs.append(self.sub_alt(depth - 1, prev_lit))
        return ("sub", fs)

    def sub_alt(self, depth, prev_lit):
        r = self.r
        n = r.randint(2, 3)
        lits = r.sample(self.lits, min(n, len(self.lits)))
        if prev_lit:
            # an alternative of literals directly after a literal would be 'adjacent literals' through
            # head/tail only for sequences; alternatives are fine for the checker, keep them
            pass
        op = "fb" if ("fb" in self.ops and r.random() < 0.2) else "alt"
        return (op, [L(x) for x in lits])
