# Shared orchestration: build the code under test from /repo's working tree, run the recorder,
# run TLC over recorded cases, collect MISMATCH/VALIDATED/REPLAY lines, known findings, evidence.
import fcntl, json, os, re, shutil, subprocess, sys, time, hashlib, tempfile
from concurrent.futures import ThreadPoolExecutor

VERIF = os.path.dirname(os.path.dirname(os.path.abspath(__file__)))
REPO = os.environ.get("VERIF_REPO", "/repo")
WORK = os.environ.get("VERIF_WORK", os.path.join(VERIF, "work"))
EVIDENCE = os.environ.get("VERIF_EVIDENCE_DIR", os.path.join(VERIF, "evidence"))
SPEC = os.path.join(VERIF, "spec")
BIN = os.path.join(WORK, "target-bin", "debug", "complgen")
RECORDER = os.path.join(WORK, "target-harness", "debug", "recorder")
TLA_CP = "/opt/veriftools/tla/tla2tools.jar:/opt/veriftools/tla/CommunityModules-deps.jar"
NCPU = os.cpu_count() or 4


class ToolError(Exception):
    pass


def log(*a):
    print(*a, file=sys.stderr, flush=True)


def seed():
    try:
        return int(os.environ.get("VERIF_SEED", "1"))
    except ValueError:
        return 1


# ---------------------------------------------------------------------------------------------
def build(need_harness=True, need_bin=True):
    """rebuild binary (guard off) and harness (feature verif on) from /repo's current working tree"""
    os.makedirs(WORK, exist_ok=True)
    env = dict(os.environ, CARGO_NET_OFFLINE="true")
    t0 = time.time()
    with open(os.path.join(WORK, "build.lock"), "w") as lk:
        fcntl.flock(lk, fcntl.LOCK_EX)
        if need_bin:
            r = subprocess.run(["cargo", "build", "--offline", "--quiet", "--manifest-path", os.path.join(REPO, "Cargo.toml"),
                                "--target-dir", os.path.join(WORK, "target-bin"), "--bin", "complgen"],
                               env=env, capture_output=True, text=True)
            if r.returncode != 0:
                raise ToolError("cargo build (binary) failed:\n" + r.stderr[-3000:])
        if need_harness:
            # the harness is built from a copy of /verif/harness whose path dependency points at REPO (default /repo);
            # files are rewritten only when their content changes, so cargo's fingerprints stay valid
            src = os.path.join(VERIF, "harness")
            hdir = os.path.join(WORK, "harness-src")
            os.makedirs(os.path.join(hdir, "src"), exist_ok=True)

            def put(rel, text):
                dst = os.path.join(hdir, rel)
                old = open(dst).read() if os.path.exists(dst) else None
                if old != text:
                    with open(dst, "w") as f:
                        f.write(text)
            put("Cargo.toml", open(os.path.join(src, "Cargo.toml")).read().replace('path = "/repo"', 'path = "%s"' % REPO))
            put("build.rs", open(os.path.join(src, "build.rs")).read())
            put(os.path.join("src", "main.rs"), open(os.path.join(src, "src", "main.rs")).read())
            lock_src = os.path.join(src, "Cargo.lock")
            put("Cargo.lock", open(lock_src if os.path.exists(lock_src) else os.path.join(REPO, "Cargo.lock")).read())
            henv = dict(env, VERIF_REPO=REPO)
            r = subprocess.run(["cargo", "build", "--offline", "--quiet", "--target-dir", os.path.join(WORK, "target-harness")], cwd=hdir, env=henv,
                               capture_output=True, text=True)
            if r.returncode != 0:
                raise ToolError("cargo build (harness) failed:\n" + r.stderr[-3000:])
    return time.time() - t0


# ---------------------------------------------------------------------------------------------
def _record_shard(mode, lines, extra, per_line_timeout=2.0):
    """run the recorder over NDJSON lines; a dying recorder (abort, stack overflow, exit) or one that stops
    answering is data for the case it was working on; the rest of the shard is resumed"""
    out = []
    i = 0
    while i < len(lines):
        died = "died"
        try:
            p = subprocess.run([RECORDER, mode] + extra, input=("\n".join(lines[i:]) + "\n").encode(), capture_output=True,
                               timeout=30 + per_line_timeout * (len(lines) - i))
            stdout, rc, stderr = p.stdout, p.returncode, p.stderr
        except subprocess.TimeoutExpired as e:
            stdout, rc, stderr, died = e.stdout or b"", -1, b"", "hang"
        got = [l for l in stdout.decode("utf-8", "replace").split("\n") if l.strip()]
        if i + len(got) < len(lines) and got and not got[-1].endswith("}"):
            got.pop()       # partial last line
        out.extend(got)
        i += len(got)
        if i < len(lines):
            v = json.loads(lines[i])
            v["obs"] = {"verdict": "crash", "ok": False, "rc": rc, "died": died, "exit": -9,
                        "stderr": stderr.decode("utf-8", "replace")[-400:]}
            out.append(json.dumps(v))
            i += 1
    return out


def record(mode, cases, extra=(), shards=None):
    """cases: list of dicts -> list of dicts with obs"""
    shards = shards or min(NCPU, max(1, len(cases) // 50))
    lines = [json.dumps(c) for c in cases]
    chunks = [lines[i::shards] for i in range(shards)]
    with ThreadPoolExecutor(shards) as ex:
        res = list(ex.map(lambda ch: _record_shard(mode, ch, list(extra)), chunks))
    out = [None] * len(lines)
    for s, ch in enumerate(res):
        for j, l in enumerate(ch):
            out[s + j * shards] = json.loads(l)
    return out


# ---------------------------------------------------------------------------------------------
_TLC_STR = re.compile(r'"((?:[^"\\]|\\.)*)"')


def _unescape(s):
    return re.sub(r'\\(.)', lambda m: {"n": "\n", "t": "\t", "r": "\r", "f": "\f"}.get(m.group(1), m.group(1)), s)


def parse_tlc_tuple(line):
    """<<"TAG", v1, v2..>> -> [TAG, v1, ...] with strings unescaped and ints parsed; None if not a tuple line"""
    line = line.strip()
    if not (line.startswith('<<"') and line.endswith(">>")):
        return None
    body = line[2:-2]
    vals = []
    i = 0
    while i < len(body):
        if body[i] == '"':
            m = _TLC_STR.match(body, i)
            if not m:
                return None
            vals.append(_unescape(m.group(1)))
            i = m.end()
        elif body[i] in ", ":
            i += 1
        else:
            j = i
            depth = 0
            while j < len(body) and (depth > 0 or body[j] != ","):
                if body[j] in "<{[(":
                    depth += 1
                elif body[j] in ">}])":
                    depth -= 1
                j += 1
            tok = body[i:j].strip()
            try:
                vals.append(int(tok))
            except ValueError:
                vals.append(tok)
            i = j
    return vals


class TlcResult:
    def __init__(self):
        self.tuples = []
        self.generated = 0
        self.distinct = 0
        self.errors = []
        self.wall = 0.0
        self.coverage = {}
        self.rc = 0

    def tagged(self, tag):
        return [t[1:] for t in self.tuples if t and t[0] == tag]


def run_tlc(spec, cfg, cases_path=None, env=None, workers=2, timeout=1200, xmx="3g", extra=(), tag="tlc", coverage=False):
    """run one TLC process; returns TlcResult.  Tool failures raise ToolError."""
    meta = tempfile.mkdtemp(prefix=tag + "-", dir=os.path.join(WORK, "tlc"))
    e = dict(os.environ)
    e["JAVA_TOOL_OPTIONS"] = "-Xss512m -Djava.io.tmpdir=" + meta      # TLC's scratch directory goes away with the run's metadir
    if cases_path:
        e["CASES"] = cases_path
    if env:
        e.update(env)
    cmd = ["timeout", str(timeout), "java", "-XX:+UseParallelGC", "-Xmx" + xmx, "-cp", TLA_CP, "tlc2.TLC",
           "-workers", str(workers), "-metadir", meta, "-cleanup", "-noGenerateSpecTE", "-config", cfg]
    if coverage:
        cmd += ["-coverage", "1"]
    cmd += list(extra) + [spec]
    t0 = time.time()
    p = subprocess.run(cmd, cwd=SPEC, env=e, capture_output=True, text=True)
    res = TlcResult()
    res.wall = time.time() - t0
    res.rc = p.returncode
    shutil.rmtree(meta, ignore_errors=True)
    out = p.stdout
    for line in out.split("\n"):
        t = parse_tlc_tuple(line)
        if t:
            res.tuples.append(t)
        m = re.match(r"(\d+) states generated, (\d+) distinct states found", line)
        if m:
            res.generated, res.distinct = int(m.group(1)), int(m.group(2))
        m = re.match(r"<(\w+) line \d+, col \d+ to line \d+, col \d+ of module (\w+)>: (\d+):(\d+)", line)
        if m:
            res.coverage[m.group(2) + "." + m.group(1)] = int(m.group(4))
    if p.returncode == 124:
        raise ToolError("TLC timed out after %ds: %s %s" % (timeout, spec, cfg))
    bad = [l for l in out.split("\n") if l.startswith("Error:") or "TLC threw" in l or "Exception" in l]
    if p.returncode != 0 or bad:
        raise ToolError("TLC failed rc=%d on %s/%s:\n%s\n%s" % (p.returncode, spec, cfg, "\n".join(out.split("\n")[-40:]), p.stderr[-2000:]))
    return res


def run_tlc_sharded(spec, cfg, cases, shards=8, workers=2, prefix="cases", group_key=None, **kw):
    """split recorded cases over several TLC processes (initial states are computed single-threaded);
    group_key keeps cases of one group in one shard"""
    os.makedirs(os.path.join(WORK, "tlc"), exist_ok=True)
    shards = max(1, min(shards, len(cases)))
    if group_key:
        groups = {}
        for c in cases:
            groups.setdefault(group_key(c), []).append(c)
        buckets = [[] for _ in range(shards)]
        for i, g in enumerate(sorted(groups)):
            buckets[i % shards].extend(groups[g])
        cases = [c for b in buckets for c in b]
        sizes = [len(b) for b in buckets]
    else:
        sizes = None
    paths = []
    d = tempfile.mkdtemp(prefix=prefix + "-", dir=os.path.join(WORK, "tlc"))
    for s in range(shards):
        path = os.path.join(d, "%s-%d.ndjson" % (prefix, s))
        with open(path, "w") as f:
            chunk = cases[s::shards] if sizes is None else cases[sum(sizes[:s]):sum(sizes[:s + 1])]
            for c in chunk:
                f.write(json.dumps(c) + "\n")
        paths.append(path)
    with ThreadPoolExecutor(shards) as ex:
        rs = list(ex.map(lambda pth: run_tlc(spec, cfg, pth, workers=workers, tag=prefix, **kw), paths))
    shutil.rmtree(d, ignore_errors=True)
    tot = TlcResult()
    for r in rs:
        tot.tuples += r.tuples
        tot.generated += r.generated
        tot.distinct += r.distinct
        tot.wall = max(tot.wall, r.wall)
        for k, v in r.coverage.items():
            tot.coverage[k] = tot.coverage.get(k, 0) + v
    return tot


# ---------------------------------------------------------------------------------------------
def load_known():
    p = os.path.join(VERIF, "known_findings.json")
    if not os.path.exists(p):
        return []
    return [e for e in json.load(open(p)).get("findings", []) if e.get("status", "known") == "known"]


def sig_matches(entry_sig, sig):
    """every field the entry fixes must be equal in the observed signature"""
    return all(sig.get(k) == v for k, v in entry_sig.items())


class Verdict:
    """collects mismatches of one check, separates known findings from violations, writes replay files"""

    def __init__(self, prop):
        self.prop = prop
        self.known = [e for e in load_known() if e["property"] == prop]
        self.known_hits = {}
        self.violations = []
        self.notes = []

    def mismatch(self, sig, what, replay):
        for e in self.known:
            if sig_matches(e["signature"], sig):
                self.known_hits.setdefault(e["id"], {"entry": e, "n": 0, "first": what})
                self.known_hits[e["id"]]["n"] += 1
                return "known"
        self.violations.append((sig, what, replay))
        return "violation"

    def finish(self, max_print=20):
        for k, h in sorted(self.known_hits.items()):
            print("KNOWN-FINDING: property=%s %s [%s; %d occurrence(s); e.g. %s]" % (self.prop, h["entry"]["what"], k, h["n"], h["first"]))
        for e in self.known:        # every listed finding of this property is named, also when this run's inputs did not meet it
            if e["id"] not in self.known_hits:
                print("KNOWN-FINDING: property=%s %s [%s; listed, not met by the inputs of this run; witness: %s]" % (self.prop, e["what"], e["id"], e.get("witness", "")))
        os.makedirs(os.path.join(WORK, "replay"), exist_ok=True)
        seen = set()
        n = 0
        for sig, what, replay in self.violations:
            key = json.dumps(sig, sort_keys=True)
            if key in seen and n >= 3:
                continue
            seen.add(key)
            if n >= max_print:
                break
            path = os.path.join(WORK, "replay", "%s-%d.json" % (self.prop, n))
            with open(path, "w") as f:
                json.dump({"property": self.prop, "signature": sig, "what": what, "replay": replay}, f, indent=1)
            print("VIOLATION property=%s replay=%s" % (self.prop, path))
            log("  signature:", json.dumps(sig, sort_keys=True))
            log("  what:", what)
            n += 1
        return 1 if self.violations else 0


def write_evidence(prop, tier, level, coverage, assumptions, wall, violations, extra=None):
    os.makedirs(EVIDENCE, exist_ok=True)
    ev = {"property_id": prop, "tier": tier, "seed": seed(), "level": level, "coverage": coverage,
          "assumptions": assumptions, "wall_s": round(wall, 2), "violations": violations}
    if extra:
        ev.update(extra)
    with open(os.path.join(EVIDENCE, prop + ".json"), "w") as f:
        json.dump(ev, f, indent=1, sort_keys=True)


def run_bin(args, stdin_text=None, timeout=10, env=None, cwd=None):
    """run the complgen binary; returns (rc, stdout, stderr, timed_out)"""
    try:
        p = subprocess.run([BIN] + args, input=stdin_text.encode() if isinstance(stdin_text, str) else stdin_text,
                           capture_output=True, timeout=timeout, env=env, cwd=cwd)
        return p.returncode, p.stdout, p.stderr, False
    except subprocess.TimeoutExpired:
        return -1, b"", b"", True


def sha(b):
    return hashlib.sha256(b).hexdigest()


def emit_many(cases, extra_args=(), threads=None, timeout=20):
    """run `complgen --<shell> - -` (usage on stdin, script on stdout) for every case with the binary
    built from /repo (guard off); returns list of (rc, stdout bytes, stderr bytes, timed_out)"""
    threads = threads or NCPU

    def one(c):
        return run_bin(["--" + c["shell"], "-", "-"] + list(extra_args), stdin_text=c["usage"], timeout=timeout)
    with ThreadPoolExecutor(threads) as ex:
        return list(ex.map(one, cases))


# ---------------------------------------------------------------------------------------------
def replay(prop, path):
    """./check <id> --replay <file>: re-observe the implementation on the input a VIOLATION line points to and say whether the
    recorded observation still reproduces (exit 1) or not (exit 0).  The decision itself is the check's; this is the
    implementation side only (real binary, real bash), so that a report can be looked at without re-running a tier."""
    import hashlib
    d = json.load(open(path))
    pl = d.get("replay", {})
    print("property   : %s" % d.get("property", prop))
    print("reported   : %s" % d.get("what", ""))
    print("signature  : %s" % json.dumps(d.get("signature", {}), sort_keys=True))
    build()
    usage = pl.get("usage")
    if usage is None and "usage_bytes" in pl:
        usage = bytes(pl["usage_bytes"]).decode("utf-8", "surrogateescape") if isinstance(pl["usage_bytes"], list) else pl["usage_bytes"]
    if usage is None:
        print("the replay file names no grammar; nothing to re-observe")
        return 2
    shell = pl.get("shell", "bash")
    tmp = tempfile.mkdtemp(prefix="replay-", dir=os.path.join(WORK, "tlc"))
    try:
        src = os.path.join(tmp, "in.usage")
        with open(src, "wb") as f:
            f.write(usage.encode("utf-8", "surrogateescape"))
        out = os.path.join(tmp, "out.script")
        p = subprocess.run([BIN, "--" + shell, out, src], capture_output=True, timeout=120)
        script = open(out, "rb").read() if os.path.exists(out) else b""
        body = b"\n".join(l for l in script.split(b"\n") if b"generated by" not in l)
        print("complgen   : exit %d, script %d bytes, digest %s" % (p.returncode, len(script), hashlib.sha256(body).hexdigest()[:16]))
        if p.stderr:
            print("stderr     : " + p.stderr.decode("utf-8", "replace").strip().replace("\n", "\n             ")[:1500])
        same = None
        if "words" in pl and "prefix" in pl and shell == "bash" and p.returncode == 0:
            import bashdrv
            q = bashdrv.run_script(script.decode("utf-8", "replace"), "_" + (usage.split()[0] if usage.split() else "cmd"),
                                   [{"words": pl["words"], "prefix": pl["prefix"], "wb": pl.get("wb", "d")}])[0]
            now = {"rc": q["rc"], "reply": sorted(q["reply"]), "calls": [(c["probe"], c["a1"], c["a2"]) for c in q["calls"]]}
            print("bash now   : %s" % json.dumps(now))
            if isinstance(pl.get("observed"), dict) and "reply" in pl["observed"]:
                then = {"rc": pl["observed"].get("rc"), "reply": sorted(pl["observed"].get("reply", []))}
                print("bash then  : %s" % json.dumps(then))
                print("expected   : %s" % json.dumps(pl.get("expected", {})))
                same = then["rc"] == now["rc"] and then["reply"] == now["reply"]
        elif isinstance(pl.get("observed"), dict) and "exit" in pl["observed"]:
            print("then       : exit %s" % pl["observed"]["exit"])
            same = pl["observed"]["exit"] == p.returncode
        if same is None:
            print("(this kind of report has no single observation to compare; see the fields of the replay file)")
            return 0
        print("the recorded observation %s" % ("still reproduces" if same else "does not reproduce on the current tree"))
        return 1 if same else 0
    finally:
        shutil.rmtree(tmp, ignore_errors=True)
