# Running the memo model (spec/MemoCheck.tla) over an observation log.
import json
import core


def run(records, shards=8):
    """records: dicts with id, key, val (strings).  Keys stay within one shard.  -> (TlcResult, mismatches, nvalidated)"""
    recs = [{"id": r["id"], "key": r["key"], "val": r["val"]} for r in records]
    res = core.run_tlc_sharded("MemoCheck.tla", "MemoCheck.cfg", recs, shards=shards, workers=1, prefix="memo", group_key=lambda r: r["key"])
    mism = [json.loads(m[0]) for m in res.tagged("MISMATCH")]
    return res, mism, len(res.tagged("VALIDATED"))
