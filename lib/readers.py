# Dumb, faithful readers of the DATA TABLES embedded in the completion scripts emitted by
# `complgen --bash|--fish|--zsh|--pwsh`.  Works on the script TEXT only; knows the table NAMES and
# syntactic FORMS, nothing about what the automaton should be.  Nothing is repaired: whatever does not
# parse or does not join becomes an entry of "anomalies".
#
#   read_script(text, shell, command) -> dict     (see bottom of file for the layout)
#   string_constants(text, shell)     -> list
#
# "tr" is the pure join of the MATCH tables ((state, item) -> target) with the COMPLETION tables (level, state ->
# items); "t": -1 = offered but no match entry, "lv": -1 = matched but offered at no level.  Anomalies starting with
# "lookup:" (fish only) say that the emitted code indexes a table differently from the table's own pairing.
#
# Table forms handled
#   bash/zsh  [local|declare] [-a|-A] NAME=( w.. | [k]=w .. )   NAME[k]=w   NAME=w      w = "..", '..', bare
#             two-level tables are strings holding an initialiser:  NAME[state]="([id]=to ...)"
#   fish      set [--global] NAME[[k]] w...        (lists; cells "1 2 3" / "cmd,to cmd,to" split on blanks)
#   pwsh      $NAME[[k]] = @(v, ..) | @{k=v; ..} | ".." | '..' | int      (nested, may span lines)
import re

EXP = "expansion in constant"
BASE = {"bash": 0, "pwsh": 0, "fish": 1, "zsh": 1}
PWQ = '"“”„'  # pwsh treats these all as double quotes
PWESC = {"0": "\0", "a": "\a", "b": "\b", "e": "\x1b", "f": "\f", "n": "\n", "r": "\r", "t": "\t", "v": "\v"}


class W(object):
    """one shell word / constant: decoded text, raw source text, anomalies, quoted?"""
    __slots__ = ("dec", "raw", "an", "q")

    def __init__(self, dec, raw, an=(), q=False):
        self.dec, self.raw, self.an, self.q = dec, raw, list(an), q


# ---------------------------------------------------------------- string constants
def _dq(s, i, shell):
    """s[i] opens a double-quoted string; -> (decoded, index after the closing quote, anomalies)"""
    out, an, j, n = [], [], i + 1, len(s)
    if shell == "pwsh":
        while j < n:
            c = s[j]
            if c == "`":
                if j + 1 >= n:
                    break
                e = s[j + 1]
                m = re.match(r"u\{([0-9A-Fa-f]{1,6})\}", s[j + 1:j + 10])
                if m:
                    out.append(chr(int(m.group(1), 16)))
                    j += 1 + m.end()
                    continue
                out.append(PWESC.get(e, e))
                j += 2
            elif c in PWQ:
                if j + 1 < n and s[j + 1] in PWQ:
                    out.append(s[j + 1])
                    j += 2
                    continue
                if c != '"':
                    an.append("non-ASCII double quote U+%04X terminates the string" % ord(c))
                return "".join(out), j + 1, an
            else:
                if c == "$" and EXP not in an:
                    an.append(EXP)
                out.append(c)
                j += 1
        return "".join(out), n, an + ["unterminated string"]
    esc = '"$\\\n' if shell == "fish" else '"$\\\n`'
    while j < n:
        c = s[j]
        if c == "\\" and j + 1 < n:
            e = s[j + 1]
            if e in esc:
                out.append("" if e == "\n" else e)
            else:
                out.append(c + e)
            j += 2
        elif c == '"':
            return "".join(out), j + 1, an
        else:
            if (c == "$" or (c == "`" and shell != "fish")) and EXP not in an:
                an.append(EXP)
            out.append(c)
            j += 1
    return "".join(out), n, an + ["unterminated string"]


def _sq(s, i, shell):
    """single-quoted string"""
    j, n, out = i + 1, len(s), []
    while j < n:
        c = s[j]
        if c == "'":
            if shell == "pwsh" and s[j + 1:j + 2] == "'":
                out.append("'")
                j += 2
                continue
            return "".join(out), j + 1, []
        if shell == "fish" and c == "\\" and s[j + 1:j + 2] in ("'", "\\"):
            out.append(s[j + 1])
            j += 2
            continue
        out.append(c)
        j += 1
    return "".join(out), n, ["unterminated string"]


def _word(s, i, shell, stops):
    """a bash/zsh/fish word starting at i, up to an unquoted char in stops -> (W, end)"""
    out, an, j, n, q = [], [], i, len(s), False
    while j < n and s[j] not in stops:
        c = s[j]
        if c == '"':
            d, j, a = _dq(s, j, shell)
            out.append(d)
            an += [x for x in a if x not in an]
            q = True
        elif c == "'":
            d, j, a = _sq(s, j, shell)
            out.append(d)
            an += a
            q = True
        elif c == "\\" and j + 1 < n:
            out.append("" if s[j + 1] == "\n" else s[j + 1])
            j += 2
        else:
            if c in "$`(){}<>|&*?~" and "expansion" not in an:
                an.append("expansion")  # bare word with shell syntax: this is code, not a constant
            out.append(c)
            j += 1
    return W("".join(out), s[i:j], an, q), j


def _shlist(s, i, shell):
    """s[i] == '(' : bash/zsh array initialiser -> ([(key or None, W)], end, anomalies)"""
    items, an, j, n = [], [], i + 1, len(s)
    while True:
        while j < n and s[j] in " \t\n":
            j += 1
        if j >= n:
            return items, n, an + ["unterminated ( list"]
        if s[j] == ")":
            return items, j + 1, an
        key = None
        m = re.compile(r"\[([^\]\n]*)\]=").match(s, j)
        if m:
            key, j = m.group(1), m.end()
        w, j2 = _word(s, j, shell, " \t\n)")
        if j2 == j and not m:
            return items, j, an + ["cannot parse list element at %r" % s[j:j + 20]]
        items.append((key, w))
        j = j2


def _pwvalue(s, i):
    """pwsh literal value at s[i] -> (value, end) or (None, i).  value = ("s",W)|("l",[value])|("d",[(W,value)])"""
    n = len(s)

    def ws(j, extra=""):
        while j < n and s[j] in " \t\r\n" + extra:
            j += 1
        return j
    if s.startswith("@(", i):
        j, items = ws(i + 2), []
        while j < n and s[j] != ")":
            v, j2 = _pwvalue(s, j)
            if v is None:
                return None, i
            items.append(v)
            j = ws(j2)
            if j < n and s[j] == ",":
                j = ws(j + 1)
            elif j < n and s[j] != ")":
                return None, i
        return (("l", items), j + 1) if j < n else (None, i)
    if s.startswith("@{", i):
        j, items = ws(i + 2, ";"), []
        while j < n and s[j] != "}":
            k, j2 = _pwvalue(s, j)
            if k is None or k[0] != "s":
                return None, i
            j = ws(j2)
            if j >= n or s[j] != "=":
                return None, i
            v, j2 = _pwvalue(s, ws(j + 1))
            if v is None:
                return None, i
            items.append((k[1], v))
            j = ws(j2, ";")
            if j < n and s[j] != "}" and not re.search(r"[;\n]", s[j2:j]):
                return None, i  # entries on one line need a ';' between them
        return (("d", items), j + 1) if j < n else (None, i)
    if i < n and s[i] in PWQ:
        d, j, an = _dq(s, i, "pwsh")
        return ("s", W(d, s[i:j], an, True)), j
    if i < n and s[i] == "'":
        d, j, an = _sq(s, i, "pwsh")
        return ("s", W(d, s[i:j], an, True)), j
    m = re.compile(r"-?\d+").match(s, i)
    if m:
        return ("s", W(m.group(0), m.group(0))), m.end()
    return None, i


# ---------------------------------------------------------------- statements -> environment
STMT = {
    "bash": re.compile(r"^[ \t]*(?:(local|declare|typeset)[ \t]+(?:-([A-Za-z]+)[ \t]+)?)?([A-Za-z_]\w*)(?:\[(\d+)\])?(=|[ \t]*$)", re.M),
    "fish": re.compile(r"^[ \t]*set((?:[ \t]+--?[A-Za-z-]*)*)[ \t]+([A-Za-z_]\w*)(?:\[(\d+)\])?(?=[ \t]|$)", re.M),
    "pwsh": re.compile(r"^[ \t]*\$([A-Za-z_]\w*)(?:\[(\d+)\])?[ \t]*=[ \t]*", re.M),
}
STMT["zsh"] = STMT["bash"]
KNOWN = re.compile(r"^(subword_)?(literals|descriptions|descrs|descr_literal_ids|descr_ids|descr_id_from_literal_id|"
                   r"(literal|command|compadd|star|subword)_transitions(_level_\d+|_inputs|_tos|_ids|_from|_to)?|"
                   r"(compadd_)?commands_level_\d+|subwords_level_\d+|(literal|command|subword)_(froms|inputs)_level_\d+|"
                   r"max_fallback_level|state)$")


LOOKS = {  # main function: lines that look like table declarations and therefore must have been understood
    "bash": re.compile(r"^ {0,4}(?! )((local|declare|typeset)[ \t]+-[aA]\b|[A-Za-z_]\w*\[\d+\]=)"),
    "fish": re.compile(r"^ {0,4}(?! )set[ \t]+(--global[ \t]+)?\w*(literals|descr|transitions|_level_)"),
    "pwsh": re.compile(r"^ {0,4}(?! )\$\w*(literals|descriptions|transitions|_level_)"),
}
LOOKS["zsh"] = LOOKS["bash"]


def _exec(blocks, name, shell, command, env, an, seen):
    """'run' the table statements of function <name> into env, following calls to _<command>_subword_shape_<k>.
    env[NAME] = ("s",W) | ("l",[W]) | ("d",{key:W}) for sh/fish; pwsh keeps its nested values.
    -> True if the chain ends in a call of the shared driver _<command>_subword (or name is the main function).
    Within-word wrapper/shape functions must consist of table statements and one call only; in the main function
    every line that looks like a table declaration must have been understood."""
    if name in seen or name not in blocks:
        an.append("function %s %s" % (name, "called recursively" if name in seen else "not found"))
        return False
    seen.add(name)
    s, ismain, used = blocks[name], name == "_" + command, []
    call = re.compile(r"^[ \t]*(_%s_subword(?:_shape_\d+)?)(?=[ \t]|$).*$" % re.escape(command), re.M)

    def leftovers(text, off):
        for lm in re.finditer(r"^.*$", text, re.M):
            ln, at = lm.group(0), lm.start() + off
            if ln.strip() and not any(a <= at < b for a, b in used) and (not ismain or LOOKS[shell].match(ln)):
                an.append("%s: line not understood: %r" % (name, ln.strip()[:60]))
    pos = 0
    while True:
        m, c = STMT[shell].search(s, pos), (None if ismain else call.search(s, pos))
        if c and (not m or c.start() <= m.start()):
            leftovers(s[:c.start()], 0)
            leftovers(s[c.end():], c.end())
            if c.group(1) == "_%s_subword" % command:
                return True
            return _exec(blocks, c.group(1), shell, command, env, an, seen)
        if not m:
            leftovers(s, 0)
            return ismain
        e = _stmt(s, m, shell, env, an)
        if e >= 0:
            used.append((m.start(), max(e, m.start() + 1)))
        pos = m.end() if e < 0 else max(e, m.end())


def _stmt(s, m, shell, env, an):
    if shell == "pwsh":
        name, key = m.group(1), m.group(2)
        v, end = _pwvalue(s, m.end())
        rest = re.compile(r"[ \t]*\r?(\n|$)").match(s, end)
        if v is None or not rest:
            if KNOWN.match(name) and name != "state":
                an.append("cannot parse value of $%s: %r" % (name, s[m.end():m.end() + 40]))
            return -1
        if key is None:
            env[name] = v
        else:
            if name not in env or env[name][0] != "d":
                an.append("$%s[%s] assigned but $%s is not a hashtable" % (name, key, name))
                env[name] = ("d", [])
            env[name][1].append((W(key, key), v))
        return end
    if shell == "fish":
        flags, name, key = m.group(1).split(), m.group(2), m.group(3)
        if [f for f in flags if f not in ("--global", "-g")]:
            return -1
        j, ws, bad = m.end(), [], False
        while True:
            while j < len(s) and s[j] in " \t":
                j += 1
            if j >= len(s) or s[j] in "\n;#":
                break
            w, j2 = _word(s, j, "fish", " \t\n;")
            if j2 == j:
                bad = True
                break
            ws.append(w)
            j = j2
        bad = bad or any("expansion" in w.an for w in ws)
        if bad:
            if KNOWN.match(name) and name != "state":
                an.append("cannot parse value of %s: %r" % (name, s[m.end():m.end() + 40]))
            return -1
        if key is None:
            env[name] = ("l", ws)
        else:
            cur = env.get(name, ("l", []))[1]
            d = dict(cur) if isinstance(cur, dict) else dict((str(i + 1), w) for i, w in enumerate(cur))
            if len(ws) != 1:
                an.append("%s[%s] assigned %d values" % (name, key, len(ws)))
            d[key] = ws[0] if ws else W("", "")
            env[name] = ("d", d)
        return j
    decl, flag, name, key, eq = m.groups()
    flag = flag or ""
    if eq != "=":
        if decl and not key:
            env[name] = ("d", {}) if "A" in flag else ("l", []) if "a" in flag else ("s", W("", ""))
            return m.end()
        return -1
    j = m.end()
    if j < len(s) and s[j] == "(":
        items, end, a = _shlist(s, j, shell)
        a += [x for k, w in items for x in w.an if x == "expansion"]
    else:
        w, end = _word(s, j, shell, " \t\n;")
        items, a = None, [x for x in w.an if x == "expansion"]
    if not re.compile(r"[ \t]*(\n|$)").match(s, end):
        a.append("trailing text")
    if a:
        if KNOWN.match(name) and not (name == "state" and not decl and shell != "fish"):
            an.append("cannot parse value of %s: %r (%s)" % (name, s[m.end():m.end() + 40], "; ".join(a)))
        return -1
    if key is not None:
        if items is not None:
            an.append("%s[%s] assigned a list" % (name, key))
            return end
        cur = env.get(name)
        if cur is None or cur[0] == "s":
            if KNOWN.match(name):
                an.append("%s[%s] assigned but %s was not declared as an array" % (name, key, name))
            cur = ("d", {})
        elif cur[0] == "l":
            cur = ("d", dict((str(i + BASE[shell]), x) for i, x in enumerate(cur[1])))
        cur[1][key] = w
        env[name] = cur
    elif items is None:
        env[name] = ("s", w)
    elif "A" in flag or any(k is not None for k, _ in items):
        d = {}
        for k, x in items:
            if k is None:
                an.append("%s: element without [key] in keyed initialiser" % name)
                continue
            if k in d:
                an.append("%s: key [%s] occurs twice (last wins)" % (name, k))
            d[k] = x
        env[name] = ("d", d)
    else:
        env[name] = ("l", [x for _, x in items])
    return end


# ---------------------------------------------------------------- environment -> normalised tables
class _N(object):
    """normalised tables of one automaton"""

    def __init__(self):
        self.lits, self.descr, self.consts = [], {}, []     # [W]; literal id -> W ; [(role, W)]
        self.m = dict((k, []) for k in ("lit", "cmd", "compadd", "sub"))   # kind -> [(state, id, to)] "effective" order
        self.star = []                                      # [(from, to)]
        self.c = dict((k, {}) for k in ("lit", "cmd", "compadd", "sub"))   # kind -> {level: [(state, [ids])]}
        self.start, self.max, self.an, self.used = None, None, [], set()


def _int(x, an, what):
    t = x.dec if isinstance(x, W) else x
    if isinstance(t, str) and re.fullmatch(r"[0-9]+", t):
        return int(t)
    an.append("%s: %r is not a number" % (what, t))
    return None


def _ints(w, an, what):
    return [v for v in (_int(t, an, what) for t in w.dec.split()) if v is not None]


def _levels(env, pat):
    """names matching pat (one group = level) -> sorted [(level, name)]"""
    r = [(int(m.group(1)), k) for k in env for m in [re.match("^" + pat + "$", k)] if m]
    return sorted(r)


def _get(N, env, name, kinds):
    v = env.get(name)
    if v is None:
        return None
    N.used.add(name)
    if v[0] not in kinds:
        N.an.append("table %s has unexpected form %s" % (name, v[0]))
        return None
    return v[1]


def _norm_sh(env, shell, p, main):
    """bash (p == "") and zsh (p == "" for main, "subword_" for within-word)"""
    N = _N()
    N.lits = _get(N, env, p + "literals", "l") or []
    if p + "literals" not in env:
        N.an.append("no %sliterals array" % p)
    if shell == "zsh":
        ds = _get(N, env, p + "descriptions", "d") or {}
        N.consts = [("description", w) for w in ds.values()]
        for k, w in (_get(N, env, p + "descr_id_from_literal_id", "d") or {}).items():
            lid = _int(k, N.an, p + "descr_id_from_literal_id key")
            if lid is None:
                continue
            if w.dec not in ds:
                N.an.append("literal %d: description id %s not in %sdescriptions" % (lid, w.dec, p))
            N.descr[lid] = ds.get(w.dec, W("", ""))
    kinds = [("lit", "literal_transitions", "literal_transitions_level_"), ("cmd", "command_transitions", "commands_level_")]
    if shell == "zsh":
        kinds.append(("compadd", "compadd_transitions", "compadd_commands_level_"))
    if main:
        kinds.append(("sub", "subword_transitions", "subword_transitions_level_"))
    for kind, mt, ct in kinds:
        mt, ct = (mt, ct) if kind == "sub" else (p + mt, p + ct)
        for st, w in (_get(N, env, mt, "d") or {}).items():
            s = _int(st, N.an, mt + " state")
            if w.dec[:1] != "(":
                N.an.append("%s[%s] is not an initialiser: %r" % (mt, st, w.dec))
                continue
            items, end, a = _shlist(w.dec, 0, shell)
            N.an += ["%s[%s]: %s" % (mt, st, x) for x in a]
            if w.dec[end:].strip():
                N.an.append("%s[%s]: trailing text %r" % (mt, st, w.dec[end:]))
            seen = {}
            for k, x in items:
                i, to = _int(k or "", N.an, "%s[%s] key" % (mt, st)), _int(x, N.an, "%s[%s] target" % (mt, st))
                if None in (s, i, to):
                    continue
                if i in seen:
                    N.an.append("%s[%s]: key [%d] occurs twice (last wins)" % (mt, st, i))
                    N.m[kind].remove((s, i, seen[i]))
                seen[i] = to
                N.m[kind].append((s, i, to))
        for lv, name in _levels(env, re.escape(ct) + r"(\d+)"):
            N.c[kind].setdefault(lv, [])
            for st, w in (_get(N, env, name, "d") or {}).items():
                s = _int(st, N.an, name + " state")
                if s is not None:
                    N.c[kind].setdefault(lv, []).append((s, _ints(w, N.an, "%s[%s]" % (name, st))))
    for k, w in (_get(N, env, p + "star_transitions", "d") or {}).items():
        f, t = _int(k, N.an, p + "star_transitions key"), _int(w, N.an, p + "star_transitions target")
        if f is not None and t is not None:
            N.star.append((f, t))
    for nm, attr in ((p + "max_fallback_level", "max"),) + ((("state", "start"),) if main else ()):
        v = _get(N, env, nm, "s")
        if v is not None:
            setattr(N, attr, _int(v, N.an, nm))
    return N


def _norm_fish(env, p, main, code):
    """code = text of the function doing the lookups; where it indexes a table differently from the table's own
    pairing, a "lookup:" anomaly says so (the tables are still joined by their own pairing)"""
    N = _N()

    def lst(name):  # fish list as {1-based index: W}
        v = env.get(name)
        if v is None:
            return {}
        N.used.add(name)
        if isinstance(v[1], dict):
            return dict((_int(k, N.an, name + " index"), w) for k, w in v[1].items())
        return dict((i + 1, w) for i, w in enumerate(v[1]))

    def first(d, text):  # `contains --index -- text $list`: first position
        for i in sorted(k for k in d if k is not None):
            if d[i].dec == text:
                return i
        return None
    if p + "literals" not in env:
        N.an.append("no %sliterals list" % p)
    N.lits = [w for _, w in sorted(lst(p + "literals").items())]
    ds, dl, di = lst(p + "descrs"), lst(p + "descr_literal_ids"), lst(p + "descr_ids")
    N.consts = [("description", w) for _, w in sorted(ds.items())]
    for pos in sorted(dl):
        lid = _int(dl[pos], N.an, p + "descr_literal_ids")
        if lid is None or first(dl, dl[pos].dec) != pos:
            if lid is not None:
                N.an.append("%sdescr_literal_ids: id %d occurs twice (first wins)" % (p, lid))
            continue
        did = _int(di[pos], N.an, p + "descr_ids") if pos in di else None
        if did is None or did not in ds:
            N.an.append("literal %d: no description at %sdescr_ids[%d] / %sdescrs" % (lid, p, pos, p))
        N.descr[lid] = ds.get(did, W("", ""))
    # match tables: parallel lists of blank-separated cells, joined by position (first occurrence of an id wins)
    pairs = [("lit", lst(p + "literal_transitions_inputs"), lst(p + "literal_transitions_tos"), p + "literal_transitions")]
    if main:
        pairs.append(("sub", lst("subword_transitions_ids"), lst("subword_transitions_tos"), "subword_transitions"))
    for kind, ins, tos, nm in pairs:
        for s in sorted(set(ins) | set(tos), key=lambda x: -1 if x is None else x):
            a, b = ins.get(s, W("", "")).dec.split(" "), tos.get(s, W("", "")).dec.split(" ")
            a, b = ([] if a == [""] else a), ([] if b == [""] else b)
            if len(a) != len(b):
                N.an.append("%s state %s: %d ids but %d targets" % (nm, s, len(a), len(b)))
            seen = set()
            for k, x in enumerate(a):
                i = _int(x, N.an, "%s state %s id" % (nm, s))
                to = _int(b[k], N.an, "%s state %s target" % (nm, s)) if k < len(b) else None
                if i in seen:
                    N.an.append("%s state %s: id %s occurs twice (first wins)" % (nm, s, i))
                    continue
                seen.add(i)
                if i is not None and s is not None:
                    N.m[kind].append((s, i, -1 if to is None else to))
                    if kind == "sub" and "set state $tos[$subword_id]" in code and (b[i - 1] if 1 <= i <= len(b) else "") != (b[k] if k < len(b) else ""):
                        N.an.append("lookup: subword_transitions state %s id %d: the code reads $tos[$subword_id] = %r, the paired target is %r"
                                    % (s, i, b[i - 1] if 1 <= i <= len(b) else "", b[k] if k < len(b) else ""))
    for s, w in sorted(lst(p + "command_transitions").items(), key=lambda x: -1 if x[0] is None else x[0]):
        for cell in w.dec.split():
            f = cell.split(",")
            if len(f) != 2:
                N.an.append("%scommand_transitions[%s]: cell %r is not cmd,to" % (p, s, cell))
                continue
            i, to = _int(f[0], N.an, p + "command_transitions id"), _int(f[1], N.an, p + "command_transitions target")
            if None not in (s, i, to):
                N.m["cmd"].append((s, i, to))
    sf, st = lst(p + "star_transitions_from"), lst(p + "star_transitions_to")
    if len(sf) != len(st):
        N.an.append("%sstar_transitions_from/to have different lengths" % p)
    for pos in sorted(sf):
        f, t = _int(sf[pos], N.an, p + "star_transitions_from"), _int(st[pos], N.an, p + "star_transitions_to") if pos in st else None
        if f is not None and first(sf, sf[pos].dec) == pos:
            N.star.append((f, -1 if t is None else t))
    comp = [("lit", p + "literal_froms_level_", p + "literal_inputs_level_"), ("cmd", p + "command_froms_level_", p + "commands_level_")]
    if main:
        comp.append(("sub", "subword_froms_level_", "subwords_level_"))
    for kind, fr, cells in comp:
        lvs = sorted(set(l for l, _ in _levels(env, re.escape(fr) + r"(\d+)")) | set(l for l, _ in _levels(env, re.escape(cells) + r"(\d+)")))
        for lv in lvs:
            F, C = lst(fr + str(lv)), lst(cells + str(lv))
            N.c[kind].setdefault(lv, [])
            if len(F) != len(C):
                N.an.append("%s%d has %d states but %s%d has %d cells" % (fr, lv, len(F), cells, lv, len(C)))
            for pos in sorted(F):
                s = _int(F[pos], N.an, fr + str(lv))
                if s is None or first(F, F[pos].dec) != pos:
                    continue
                N.c[kind].setdefault(lv, []).append((s, _ints(C[pos], N.an, cells + str(lv)) if pos in C else []))
                cell = C[pos].dec.split() if pos in C else []
                if kind == "cmd" and main and "set commands (string split ' ' $$commands_name)" in code:
                    flat = [x for q in sorted(C) for x in C[q].dec.split(" ")]
                    if cell != flat[pos - 1:pos]:
                        N.an.append("lookup: %s%d state %d: the code runs command %s of the flattened list, the cell holds %s" % (cells, lv, s, flat[pos - 1:pos], cell))
                if kind == "cmd" and not main and "set function_id $$subword_commands_level_name[1][$index]" in code and len(cell) != 1:
                    N.an.append("lookup: %s%d state %d: the code uses the whole cell %r as one command id" % (cells, lv, s, C[pos].dec if pos in C else ""))
    mx = lst("subword_max_fallback_level")          # also (re)set by the main function; only meaningful within words
    if not main and 1 in mx:
        N.max = _int(mx[1], N.an, "subword_max_fallback_level")
    if main and 1 in lst("state"):
        N.start = _int(lst("state")[1], N.an, "state")
    return N


def _norm_pwsh(env, main):
    N = _N()

    def tab(name):  # hashtable -> [(int key, value)]
        r = []
        for k, v in (_get(N, env, name, "d") or []):
            i = _int(k, N.an, "$%s key" % name)
            if k.q:
                N.an.append("$%s: quoted key %s is a string, integer lookups will miss it" % (name, k.raw))
            elif i is not None:
                r.append((i, v))
        return r

    def scalar(v, what):
        if v[0] != "s" or v[1].q:
            N.an.append("%s: expected an integer, found %s" % (what, v[0] if v[0] != "s" else v[1].raw))
            return None
        return _int(v[1], N.an, what)
    if "literals" not in env:
        N.an.append("no $literals array")
    for v in _get(N, env, "literals", "l") or []:
        if v[0] != "s":
            N.an.append("$literals holds a non-scalar element")
        N.lits.append(v[1] if v[0] == "s" else W("", ""))
    seen = {}
    for i, v in tab("descriptions"):
        if v[0] != "s":
            N.an.append("$descriptions[%d] is not a string" % i)
            continue
        if i in seen:
            N.an.append("$descriptions: key %d occurs twice (hashtable literal error)" % i)
        seen[i] = 1
        N.descr[i] = v[1]
        N.consts.append(("description", v[1]))
    kinds = [("lit", "literal_transitions", "literal_transitions_level_"), ("cmd", "command_transitions", "commands_level_")]
    if main:
        kinds.append(("sub", "subword_transitions", "subword_transitions_level_"))
    for kind, mt, ct in kinds:
        for s, v in tab(mt):
            if v[0] != "d":
                N.an.append("$%s[%d] is not a hashtable" % (mt, s))
                continue
            for k, x in v[1]:
                i, to = _int(k, N.an, "$%s[%d] key" % (mt, s)), scalar(x, "$%s[%d] target" % (mt, s))
                if i is not None and to is not None:
                    if [1 for (a, b, _) in N.m[kind] if (a, b) == (s, i)]:
                        N.an.append("$%s[%d]: key %d occurs twice" % (mt, s, i))
                    N.m[kind].append((s, i, to))
        for lv, name in _levels(env, re.escape(ct) + r"(\d+)"):
            N.c[kind].setdefault(lv, [])
            for s, v in tab(name):
                ids = [scalar(x, "$%s[%d]" % (name, s)) for x in (v[1] if v[0] == "l" else [v])]
                N.c[kind].setdefault(lv, []).append((s, [i for i in ids if i is not None]))
    for f, v in tab("star_transitions"):
        t = scalar(v, "$star_transitions[%d]" % f)
        if t is not None:
            N.star.append((f, t))
    for nm, attr in (("max_fallback_level", "max"),) + ((("state", "start"),) if main else ()):
        v = env.get(nm)
        if v is not None:
            N.used.add(nm)
            setattr(N, attr, scalar(v, "$" + nm))
    return N


# ---------------------------------------------------------------- join
def _build(N, shell, commands, subpos, consts):
    an = list(N.an)
    base, lits, tr = BASE[shell], [], []
    for k, w in enumerate(N.lits):
        d = N.descr.get(k + base) if shell != "bash" else None
        for x in w.an:
            an.append("%s: literal %s" % (x, w.raw))
        for x in (d.an if d else []):
            an.append("%s: description %s" % (x, d.raw))
        lits.append({"id": k + base, "t": w.dec, "d": d.dec if d else "", "hd": bool(d and d.dec != "")})
        consts.append(("literal", w))
    consts += N.consts
    for lid in N.descr:
        if not base <= lid < base + len(lits):
            an.append("description attached to literal id %d which is not in the literals array" % lid)
    byid = dict((x["id"], x) for x in lits)

    def label(kind, i, lv):
        l = {"k": kind, "t": "", "d": "", "hd": False, "lv": lv, "sub": 0, "iid": i}
        if kind == "lit":
            if i in byid:
                l.update(t=byid[i]["t"], d=byid[i]["d"], hd=byid[i]["hd"])
            else:
                an.append("literal id %d is not in the literals array" % i)
        elif kind in ("cmd", "compadd"):
            if str(i) in commands:
                l["t"] = commands[str(i)]
            else:
                an.append("command id %d has no function" % i)
        elif kind == "sub":
            l["sub"] = subpos.get(i, 0)
            if i not in subpos:
                an.append("subword id %d has no function" % i)
        return l
    for kind in ("lit", "cmd", "compadd", "sub"):
        mt, used = {}, set()
        for s, i, to in N.m[kind]:
            mt[(s, i)] = to
        for lv in sorted(N.c[kind]):
            for s, ids in N.c[kind][lv]:
                for i in ids:
                    if (s, i) not in mt:
                        an.append("%s id %d offered in state %d at level %d has no match-table entry" % (kind, i, s, lv))
                    used.add((s, i))
                    tr.append({"f": s, "t": mt.get((s, i), -1), "l": label(kind, i, lv)})
        for s, i, to in N.m[kind]:
            if (s, i) not in used:
                an.append("%s id %d matched in state %d is offered at no level" % (kind, i, s))
                tr.append({"f": s, "t": to, "l": label(kind, i, -1)})
        lvs = sorted(N.c[kind])
        if N.max is not None and lvs and lvs != list(range(N.max + 1)):
            an.append("%s completion tables for levels %s but max_fallback_level is %d" % (kind, lvs, N.max))
    for f, t in N.star:
        tr.append({"f": f, "t": t, "l": label("star", 0, 0)})
    if N.start is None:
        an.append("start state not found")
    if N.max is None:
        an.append("max_fallback_level not found")
    return {"start": -1 if N.start is None else N.start, "literals": lits, "tr": tr, "anomalies": an,
            "max_level": -1 if N.max is None else N.max}


# ---------------------------------------------------------------- script level
def _blocks(text, shell, command):
    """col-0 function definitions -> {name: body text}; the main function is named "_<command>" """
    c = re.escape(command)
    names = r"(_%s(?:_cmd_\d+|_subword_shape_\d+|_subword_\d+|_subword)?|compadd_hook|__complgen_match)" % c
    if shell == "fish":
        head, term = re.compile(r"^function %s[ \t]*$" % names, re.M), "end"
    elif shell == "pwsh":
        head, term = re.compile(r"^(?:function %s \{|(Register-ArgumentCompleter)\b.*-ScriptBlock \{)[ \t]*\r?$" % names, re.M), "}"
    else:
        head, term = re.compile(r"^%s \(\) \{[ \t]*$" % names, re.M), "}"
    hs, out, an = list(head.finditer(text)), {}, []
    for k, m in enumerate(hs):
        name = m.group(1) or "_" + command
        span = text[m.end():hs[k + 1].start() if k + 1 < len(hs) else len(text)]
        ends = [e.start() for e in re.finditer(r"^%s[ \t]*\r?$" % re.escape(term), span, re.M)]
        if not ends:
            an.append("function %s is not terminated" % name)
        if name in out:
            an.append("function %s defined twice (last wins)" % name)
        out[name] = span[:ends[-1]] if ends else span
    return out, an


def _registered(text, shell):
    pats = {"bash": [r"^complete\b.*?-F[ \t]+\S+[ \t]+(\S+)[ \t]*$"], "fish": [r"^complete --command (\S+)"],
            "zsh": [r"^#compdef[ \t]+(\S+)", r"^[ \t]*compdef[ \t]+\S+[ \t]+(\S+)[ \t]*$"],
            "pwsh": [r"^Register-ArgumentCompleter\b.*?-CommandName[ \t]+'((?:[^']|'')*)'"]}
    return [m.group(1).replace("''", "'") if shell == "pwsh" else m.group(1) for p in pats[shell] for m in re.finditer(p, text, re.M)]


def _read(text, shell, command):
    res = {"ok": False, "error": "", "registered": "", "commands": {}, "subs": [], "sub_ids": [],
           "main": {"start": -1, "literals": [], "tr": [], "anomalies": [], "max_level": -1}}
    consts = []
    if shell not in BASE:
        res["error"] = "unknown shell %r" % shell
        return res, consts
    blocks, top = _blocks(text, shell, command)
    reg = _registered(text, shell)
    res["registered"] = reg[0] if reg else ""
    if not reg:
        top.append("no registration line found")
    elif len(set(reg)) > 1:
        top.append("registered under different names: %s" % sorted(set(reg)))
    main = "_" + command
    if main not in blocks:
        res["error"] = "main function for command %r not found" % command
        return res, consts
    for name, body in blocks.items():
        m = re.match(r"^_%s_cmd_(\d+)$" % re.escape(command), name)
        if m:
            res["commands"][m.group(1)] = body.strip()
    sub_ids = sorted(int(m.group(1)) for name in blocks for m in [re.match(r"^_%s_subword_(\d+)$" % re.escape(command), name)] if m)
    subpos = dict((i, k + 1) for k, i in enumerate(sub_ids))
    p = "subword_" if shell in ("fish", "zsh") else ""

    def norm(env, prefix, is_main):
        if shell == "fish":
            return _norm_fish(env, prefix, is_main, blocks[main] if is_main else blocks.get("_%s_subword" % command, ""))
        if shell == "pwsh":
            return _norm_pwsh(env, is_main)
        return _norm_sh(env, shell, prefix, is_main)

    def unused(env, N):
        for k, v in sorted(env.items()):
            if k in N.used or v[0] not in ("l", "d") or not v[1]:
                continue
            ws = [x for x in (v[1].values() if isinstance(v[1], dict) else v[1]) if isinstance(x, W)]
            if KNOWN.match(k):
                N.an.append("table %s is not part of any known lookup" % k)
            elif not any(w.an for w in ws) and (shell != "fish" or len(ws) > 1 or any(w.q for w in ws)):
                N.an.append("unrecognised table %s" % k)
    env, an = {}, []
    _exec(blocks, main, shell, command, env, an, set())
    N = norm(env, "", True)
    N.an = top + an + N.an
    if shell == "fish":  # the main loop bound is printed in the code, not in a variable
        m = re.search(r"^[ \t]*while test \$fallback_level -le (\d+)[ \t]*$", blocks[main], re.M)
        N.max = int(m.group(1)) if m else None
    unused(env, N)
    res["main"] = _build(N, shell, res["commands"], subpos, consts)
    # start state of every within-word automaton: printed once in the shared driver function
    drv, sstart = blocks.get("_%s_subword" % command), None
    if drv is not None:
        pat = {"fish": r"^[ \t]*set subword_state (\d+)[ \t]*$", "pwsh": r"^[ \t]*\$subword_state = (\d+)[ \t]*\r?$"}
        m = re.search(pat.get(shell, r"^[ \t]*(?:local|declare) subword_state=(\d+)[ \t]*$"), drv, re.M)
        sstart = int(m.group(1)) if m else None
    for i in sub_ids:
        env, an = {}, []
        if not _exec(blocks, "_%s_subword_%d" % (command, i), shell, command, env, an, set()):
            an.append("_%s_subword_%d never calls _%s_subword" % (command, i, command))
        N = norm(env, p, False)
        N.an = an + N.an
        N.start = sstart
        unused(env, N)
        res["subs"].append(_build(N, shell, res["commands"], {}, consts))
        res["sub_ids"].append(i)
    refd = set(t["l"]["sub"] for t in res["main"]["tr"])
    res["main"]["anomalies"] += ["within-word function %d is not referenced by the main tables" % i for i in sub_ids if subpos[i] not in refd]
    if sub_ids and drv is None:
        res["main"]["anomalies"].append("within-word functions present but no _%s_subword driver" % command)
    m = res["main"]
    if not m["literals"] and not m["tr"] and m["start"] < 0:
        res["error"] = "no table could be read from the main function"
        return res, consts
    res["ok"] = True
    return res, consts


def read_script(text, shell, command):
    """-> {"ok", "error", "registered", "commands": {id: body}, "main": AUTOMATON, "subs": [AUTOMATON], "sub_ids": [int]}
    AUTOMATON = {"start", "literals": [{"id","t","d","hd"}], "tr": [{"f","t","l": LABEL}], "anomalies": [str], "max_level"}
    LABEL = {"k": lit|cmd|compadd|sub|star, "t", "d", "hd", "lv", "sub"}"""
    return _read(text, shell, command)[0]


def string_constants(text, shell):
    """every literal / description constant of the table declarations (main function and within-word functions)"""
    reg = _registered(text, shell) if shell in BASE else []
    if not reg:
        return []
    _, consts = _read(text, shell, reg[0])
    return [{"raw": w.raw, "decoded": w.dec, "role": role, "anomalies": list(w.an)} for role, w in consts]
