# Projection of complgen's stderr to located diagnostic lines (no judgement: text -> fields).
import re

HEAD = re.compile(r"^(?P<path>.*?):(?P<line>\d+):(?P<col>\d+):(?P<sev>error|warning)(?:: ?(?P<msg>.*))?$")
LABELS = [
    ("Parse error", "parse"), ("Invalid command name", "invalid_name"), ("Varying command names", "varying_names"),
    ("Nonterminal definitions cycle", "cycle"), ("Duplicate nonterminal definition", "duplicate_def"), ("Previous definition", "previous_def"),
    ("Unknown shell", "unknown_shell"), ("Can only specialize external commands", "noncommand_spec"),
    ("Adjacent literals in expression used in a subword context", "subword_spaces"), ("Referenced in a subword context at", "trace"),
    ("Ambiguous grammar", "unbounded"), ("Unused specialization", "unused_spec"), ("Unused", "unused"), ("Undefined", "undefined"),
]
SNIP = re.compile(r"^\s*(\d+) \| ?(.*)$")


def snippet_shows(lines, i, line, src_lines):
    """the rendering that follows head line i echoes source line `line` (plain text comparison)"""
    for j in range(i + 1, min(i + 4, len(lines))):
        sm = SNIP.match(lines[j])
        if not sm:
            continue
        n = int(sm.group(1))
        want = src_lines[n - 1] if 0 < n <= len(src_lines) else None
        shown = sm.group(2)
        # a span that ends on a later line is drawn with a `/` (or `|`) mark in front of the source line
        alts = {shown.rstrip()}
        if shown[:2] in ("/ ", "| ") or shown in ("/", "|"):
            alts.add(shown[2:].rstrip())
        return n == line and want is not None and (want.rstrip() in alts or want.replace("\t", "    ").rstrip() in alts)
    return False


def parse_stderr(stderr, source):
    """-> list of dict(cls, sev, line, col, snip, msg)"""
    src_lines = source.split("\n")
    lines = stderr.split("\n")
    out = []
    head = ""
    for i, text in enumerate(lines):
        m = HEAD.match(text)
        if not m:
            continue
        msg = (m.group("msg") or "").strip()
        cls = "other"
        for lab, c in LABELS:
            if msg.startswith(lab):
                cls = c
                break
        if msg == "":
            cls = head + "_2" if head in ("subword_spaces", "unbounded") else "continuation"
        else:
            head = cls
        line, col = int(m.group("line")), int(m.group("col"))
        out.append({"cls": cls, "sev": m.group("sev"), "line": line, "col": col, "snip": bool(snippet_shows(lines, i, line, src_lines)), "msg": msg})
    return out
