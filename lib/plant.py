# Planting one mistake of a known class into a clean-by-construction grammar (C08, C06, C13) and building
# reference structures for warnings (C15).  Only inputs are produced here; which verdict / warning / location
# is due is decided by the TLA+ modules from the resulting tree.
import random
import gen
from gen import L, R, C

CLASSES = ["cycle", "duplicate_def", "varying_names", "missing_variants", "invalid_name", "unknown_shell",
           "noncommand_spec", "subword_spaces", "unbounded", "conflicting_descr"]


def flatten(e):
    """nested same-kind n-ary nodes are spliced (they print without parentheses anyway)"""
    k = e[0]
    if k in ("seq", "alt", "fb"):
        cs = []
        for c in e[1]:
            c = flatten(c)
            if c[0] == k:
                cs.extend(c[1])
            else:
                cs.append(c)
        return (k, cs)
    if k == "sub":
        return ("sub", [flatten(c) for c in e[1]])
    if k in ("opt", "many"):
        return (k, flatten(e[1]))
    if k == "dd":
        return ("dd", flatten(e[1]), e[2])
    return e


def leaf_paths(e, path=(), insub=False, indd=False):
    """paths (child indices) to leaves; flags: inside a word, under a description node"""
    k = e[0]
    if k in ("lit", "ref", "cmd"):
        yield path, insub, indd
        return
    for i, c in enumerate(gen.kids(e)):
        yield from leaf_paths(c, path + (i,), insub or k == "sub", indd or k == "dd")


def replace_at(e, path, new):
    if not path:
        return new
    k = e[0]
    i = path[0]
    if k in ("seq", "alt", "fb", "sub"):
        cs = list(e[1])
        cs[i] = replace_at(cs[i], path[1:], new)
        return (k, cs)
    if k in ("opt", "many"):
        return (k, replace_at(e[1], path[1:], new))
    if k == "dd":
        return ("dd", replace_at(e[1], path[1:], new), e[2])
    raise Exception(k)


def embed(tree, frag, rnd, mode=None):
    """put frag at a random top-level (not inside a word, not under a description) leaf position of tree:
    beside the leaf in a sequence, as an alternative of it, or under [ ] / ... after it"""
    cands = [p for p, insub, indd in leaf_paths(tree) if not insub and not indd]
    if not cands:
        return flatten(("seq", [tree, frag]))
    p = rnd.choice(cands)
    leaf = tree
    for i in p:
        leaf = gen.kids(leaf)[i]
    mode = mode or rnd.choice(["seq", "seq", "alt", "opt", "fb", "many"])
    if mode == "seq":
        new = ("seq", [leaf, frag])
    elif mode == "alt":
        new = ("alt", [leaf, frag])
    elif mode == "fb":
        new = ("fb", [leaf, frag])
    elif mode == "opt":
        new = ("seq", [leaf, ("opt", frag)])
    else:
        new = ("seq", [leaf, ("many", frag if frag[0] != "many" else frag[1])])
    return flatten(replace_at(tree, p, new))


def chain(frag, depth, names, defs, rnd):
    """hide frag behind `depth` definitions: returns the expression to use and appends definitions"""
    e = frag
    for d in range(depth):
        nm = names.pop()
        body = e if rnd.random() < 0.6 else rnd.choice([("seq", [L("c%d" % d), e]), ("alt", [e, L("c%d" % d)]), ("opt", e)])
        defs.append((nm, "", flatten(body)))
        e = R(nm)
    return e


def used_plain_names(variants, defs):
    plain = {d[0]: d[2] for d in defs if d[1] == ""}
    spec = {d[0] for d in defs if d[1] != ""}
    seen = set()
    todo = [v for v in variants]
    while todo:
        t = todo.pop()
        for x in gen.walk(t):
            if x[0] == "ref" and x[1] in plain and x[1] not in spec and x[1] not in seen:
                seen.add(x[1])
                todo.append(plain[x[1]])
    return seen


def plant(variants, defs, cls, rnd, shell):
    """-> (variants [(name, tree)], defs, site description) with one mistake of class cls"""
    variants = [("cmd", v) for v in variants]
    defs = list(defs)
    fresh = ["N9", "N8", "N7", "N6", "N5", "N4", "N3", "N2", "N1"]
    site = {}

    def host():
        """where a fragment goes: a call variant or a used plain definition"""
        used = sorted(used_plain_names([v for _, v in variants], defs))
        choices = [("variant", i) for i in range(len(variants))] + [("def", n) for n in used]
        return rnd.choice(choices)

    def put(frag, mode=None):
        depth = rnd.choice([0, 0, 1, 2, 3])
        site["chain"] = depth
        e = chain(frag, depth, fresh, defs, rnd)
        h = host()
        site["host"] = h[0]
        if h[0] == "variant":
            nm, t = variants[h[1]]
            variants[h[1]] = (nm, embed(t, e, rnd, mode))
        else:
            for j, d in enumerate(defs):
                if d[0] == h[1] and d[1] == "":
                    defs[j] = (d[0], "", embed(d[2], e, rnd, mode))
                    break

    if cls == "cycle":
        k = rnd.randint(1, 4)
        names = ["Q%d" % i for i in range(1, k + 1)]
        for i, nm in enumerate(names):
            nxt = R(names[(i + 1) % k])
            body = rnd.choice([nxt, ("seq", [L("q"), nxt]), ("alt", [nxt, L("q")]), ("opt", nxt), ("seq", [("sub", [L("--q="), nxt]), L("z")]),
                               ("fb", [L("q"), nxt]), ("many", nxt)])
            defs.append((nm, "", body))
        entry = rnd.choice(["referenced", "unreferenced", "unreferenced_beside_root", "from_unused_def"])
        site.update(length=k, entry=entry)
        if entry == "referenced":
            put(R(rnd.choice(names)), mode=rnd.choice(["seq", "alt", "opt"]))
        elif entry == "from_unused_def":
            defs.append(("ROOTQ", "", ("seq", [L("r"), R(rnd.choice(names))])))
        elif entry == "unreferenced_beside_root":
            defs.append(("LONE", "", L("lone")))
    elif cls == "duplicate_def":
        kind = rnd.choice(["plain", "plain_used", "spec_target"])
        site["kind"] = kind
        if kind == "plain":
            defs.append(("DUP", "", L("one")))
            defs.append(("DUP", "", rnd.choice([L("two"), L("one"), C("echo x")])))
        elif kind == "plain_used":
            defs.append(("DUP", "", L("one")))
            defs.append(("DUP", "", L("two")))
            put(R("DUP"))
        else:
            defs.append(("DUP", shell, C("echo one")))
            defs.append(("DUP", shell, C("echo two")))
            if rnd.random() < 0.5:
                put(R("DUP"))
    elif cls == "varying_names":
        other = rnd.choice(["other", "cmd2", "Cmd"])
        variants.insert(rnd.randint(0, len(variants)), (other, rnd.choice([L("x"), ("seq", [L("x"), L("y")])])))
        site["other"] = other
    elif cls == "missing_variants":
        variants = []
        if not defs:
            defs.append(("X", "", L("x")))
    elif cls == "invalid_name":
        nm = rnd.choice(["bin/cmd", "/cmd", "a/b/c", "cmd/"])
        variants = [(nm, t) for _, t in variants]
        site["name"] = nm
    elif cls == "unknown_shell":
        sh = rnd.choice(["tcsh", "sh", "Bash", "powershell", "elvish"])
        defs.append(("S", sh, C("echo s")))
        site["shell"] = sh
        if rnd.random() < 0.5:
            put(R("S"))
    elif cls == "noncommand_spec":
        sh = rnd.choice(gen.SHELLS)
        body = rnd.choice([L("foo"), ("alt", [L("a"), L("b")]), ("seq", [C("echo x"), L("y")]), R("_"), ("opt", C("echo x"))])
        defs.append(("S", sh, body))
        site["shell"] = sh
        if rnd.random() < 0.5:
            put(R("S"))
    elif cls == "subword_spaces":
        two = rnd.choice([("seq", [L("p"), L("q")]), ("seq", [("alt", [L("q"), L("r")]), L("p"), L("q")]), ("seq", [("opt", L("o")), L("p"), L("q")]),
                          ("seq", [L("p"), ("seq", [L("q"), L("r")])])])
        depth = rnd.choice([0, 1, 1, 2, 3])
        if rnd.random() < 0.25:
            # the adjacent literals sit inside a described group whose first literal does not start where the group starts
            two = ("dd", ("alt", [("seq", [L("always"), L("auto")]), L("never")]), "when to use it")
            depth = max(depth, 1)
        elif rnd.random() < 0.3:
            # the left neighbour is itself a multi-element item whose first and last elements differ (only behind a definition)
            two = ("seq", [("sub", [L("key="), R("PATH"), L(",")]), L("more")])
            depth = max(depth, 1)
        e = chain(flatten(two), depth, fresh, defs, rnd) if depth else flatten(two)
        site["inner_chain"] = depth
        word = ("sub", [L(rnd.choice(["--w=", "-w", "w:"])), e if e[0] == "ref" else ("alt", [e, L("zz")])])
        if e[0] == "ref" and rnd.random() < 0.4:
            # the same definition is first referred to outside a word (where the blank is fine), then inside one
            site["also_outside_first"] = True
            word = ("seq", [e, word])
        put(word)
    elif cls == "unbounded":
        ph = R(rnd.choice(["UNDEF", "_"]))
        shape = rnd.choice(["ph_lit", "ph_alt", "altph_lit", "altph_lit_rev", "alt3ph_lit", "ph_opt", "def_ph_lit", "def_altph_lit", "ph_ph"])
        site["shape"] = shape
        if shape == "ph_lit":
            word = ("sub", [L("--u="), ph, L(",x")])
        elif shape == "ph_alt":
            word = ("sub", [L("--u="), ph, ("alt", [L(":a"), L(":b")])])
        elif shape == "altph_lit":
            word = ("sub", [("alt", [ph, L("k")]), L("=v")])
        elif shape == "altph_lit_rev":
            word = ("sub", [L("--t="), ("alt", [L("none"), ph]), L("ms")])
        elif shape == "alt3ph_lit":
            word = ("sub", [("alt", [L("k"), L("kk"), ph]), L("=v")])
        elif shape == "def_altph_lit":
            defs.append(("NUM", "", ph))
            defs.append(("DUR", "", ("sub", [("alt", [L("none"), R("NUM")]), L("ms")])))
            word = ("sub", [L("--timeout="), R("DUR")])
        elif shape == "ph_opt":
            word = ("sub", [L("-u"), ph, ("opt", L("!"))])
        elif shape == "def_ph_lit":
            defs.append(("PH", "", ph))
            word = ("sub", [L("--u="), R("PH"), L("%")])
        else:
            word = ("sub", [L("--u="), ph, R("UNDEF2")])
        put(word)
    elif cls == "conflicting_descr":
        shape = rnd.choice(["alt", "alt_seq", "alt_seq_apart", "two_variants", "via_defs", "opt_then"])
        site["shape"] = shape
        if shape == "alt":
            put(("alt", [L("same", "first meaning"), L("same", "second meaning")]))
        elif shape == "alt_seq":
            put(("alt", [("seq", [L("same", "one"), L("x")]), ("seq", [L("same", "two"), L("y")])]))
        elif shape == "alt_seq_apart":
            put(("alt", [("seq", [L("same", "one"), L("x")]), L("between"), L("between2"), ("seq", [L("same", "two"), L("y")])]))
        elif shape == "two_variants":
            variants.append(("cmd", ("seq", [L("same", "one"), L("x")])))
            variants.append(("cmd", ("seq", [L("same", "two"), L("y")])))
        elif shape == "via_defs":
            defs.append(("D1", "", L("same", "one")))
            defs.append(("D2", "", ("seq", [L("same", "two"), L("t")])))
            put(("alt", [R("D1"), R("D2")]))
        else:
            put(("seq", [("opt", L("same", "one")), L("same", "two")]))
    else:
        raise Exception(cls)
    rnd.shuffle(defs)
    return variants, defs, site
