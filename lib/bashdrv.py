# Runs completions of an emitted bash script in a real bash (persistent driver process per script).
import os, subprocess, tempfile, shutil
from concurrent.futures import ThreadPoolExecutor
import core

DRIVER = os.path.join(core.VERIF, "drivers", "driver.bash")
PROBE_CLASSES = {
    "p1": ["alpha", "beta\tdescr of beta", "al-two"],
    "p2": ["x1", "x2"],
    "p3": ["one two\tspaced candidate", "uno"],
    "p4": ["k1\tfirst", "k2"],
    "p5": ["gamma", "delta\tfourth letter"],
    "p6": ["m1", "m2"],
    "p7": ["s-bash\tfor bash", "sb2"],
    "p8": ["t1"],
    "p9": ["u1", "u2\tsecond"],
    # prefix-related candidates, the shorter one printed first (the within-word matcher has to try the longer one first)
    "p10": ["ab", "abc\tlonger one", "abd"],
}
DEFAULT_WB = " \t\n\"'><=;|&(:"


def cp(s):
    return [ord(ch) for ch in s]


def uncp(a):
    return "".join(chr(x) for x in a)


def run_script(script_text, fn, queries, extra_probes=None, per_query_timeout=3.0):
    """queries: list of dict(words=[str], prefix=str, wb='d'|'e') -> adds rc, reply, calls (strings)"""
    d = tempfile.mkdtemp(prefix="bash-", dir=os.path.join(core.WORK, "tlc"))
    try:
        sp = os.path.join(d, "script.bash")
        with open(sp, "w") as f:
            f.write(script_text)
        for k, lines in list(PROBE_CLASSES.items()) + list((extra_probes or {}).items()):
            with open(os.path.join(d, k), "w") as f:
                f.write("".join(l + "\n" for l in lines))
        def drive(qs, per_q):
            inp = "".join("\x1f".join([q.get("wb", "d"), "cmd"] + q["words"] + [q["prefix"], "END"]) + "\n" for q in qs)
            try:
                p = subprocess.run(["bash", "--norc", "--noprofile", DRIVER, sp, fn, d], input=inp.encode("utf-8", "surrogateescape"),
                                   capture_output=True, timeout=20 + per_q * len(qs))
                return p.stdout.decode("utf-8", "replace").split("\n")[:-1]
            except subprocess.TimeoutExpired as e:
                return (e.stdout or b"").decode("utf-8", "replace").split("\n")[:-1]
        lines = drive(queries, per_query_timeout)
        lines = [l for l in lines if l.count("\x1e") == 2]
        # a driver that stopped answering (machine load, or a completion that hangs): the unanswered queries are retried one by
        # one with a generous limit; only a query that still gets no answer on its own is recorded as unanswered (rc -2)
        k = len(lines)
        while k < len(queries):
            one = [l for l in drive([queries[k]], 30.0) if l.count("\x1e") == 2]
            lines.append(one[0] if one else "")
            k += 1
            if k < len(queries):
                more = [l for l in drive(queries[k:], per_query_timeout) if l.count("\x1e") == 2]
                lines.extend(more)
                k = len(lines)
        out = []
        for i, q in enumerate(queries):
            r = dict(q)
            if i < len(lines) and lines[i].count("\x1e") == 2:
                rc, rep, calls = lines[i].split("\x1e")
                r["rc"] = int(rc) if rc.lstrip("-").isdigit() else -3
                r["reply"] = rep.split("\x1f")[:-1] if rep else []
                r["calls"] = []
                for c in (calls.split("\x1d") if calls else []):
                    fs = c.split("\x1f")
                    if len(fs) == 4:
                        r["calls"].append({"probe": fs[0], "argc": int(fs[1]), "a1": fs[2], "a2": fs[3]})
            else:
                r["rc"], r["reply"], r["calls"] = -2, [], []       # no answer: hang or death of the shell
            out.append(r)
        return out
    finally:
        shutil.rmtree(d, ignore_errors=True)


def run_many(jobs, threads=None):
    """jobs: list of (script_text, fn, queries) -> list of result lists"""
    threads = threads or core.NCPU
    with ThreadPoolExecutor(threads) as ex:
        return list(ex.map(lambda j: run_script(*j), jobs))


def to_record(q):
    """query result -> the record shape BashCheck.tla reads (code points)"""
    return {"words": [cp(w) for w in q["words"]], "prefix": cp(q["prefix"]),
            "wb": cp(DEFAULT_WB) if q.get("wb", "d") == "d" else [],
            "rc": q["rc"], "reply": [cp(x) for x in q["reply"]],
            "calls": [{"probe": c["probe"], "a1": cp(c["a1"]), "a2": cp(c["a2"])} for c in q["calls"]],
            "txt": " ".join(q["words"] + [q["prefix"] + "^"]), "rtxt": q["reply"]}
