#!/usr/bin/env python3
"""Strict reader for the Graphviz DOT language (standard library only).

Written from the DOT grammar (graphviz.org/doc/info/lang.html), not from any
particular producer's output:

    graph     : [strict] (graph|digraph) [ID] '{' stmt_list '}'
    stmt_list : [ stmt [';'] stmt_list ]
    stmt      : node_stmt | edge_stmt | attr_stmt | ID '=' ID | subgraph
    attr_stmt : (graph|node|edge) attr_list
    attr_list : '[' [a_list] ']' [attr_list]
    a_list    : ID '=' ID [(';'|',')] [a_list]
    edge_stmt : (node_id|subgraph) edgeRHS [attr_list]
    edgeRHS   : edgeop (node_id|subgraph) [edgeRHS]
    node_stmt : node_id [attr_list]
    node_id   : ID [port]
    port      : ':' ID [':' compass_pt] | ':' compass_pt
    subgraph  : [subgraph [ID]] '{' stmt_list '}'

Lexing: names [a-zA-Z\\200-\\377_][a-zA-Z\\200-\\377_0-9]*, numerals
[-]?(.[0-9]+|[0-9]+(.[0-9]*)?), "quoted strings" (only \\" is unescaped; a
backslash followed by any other character -- including another backslash -- is
kept as that two-character pair; backslash-newline is a line continuation;
"a" + "b" concatenates), <html strings> with balanced angle brackets (returned
WITH the outer < >), comments /* */, //, and lines whose first column is '#'.
Keywords are case-insensitive and cannot be used as unquoted IDs.

parse_dot() never guesses: anything outside the grammar is reported as
"line L col C: expected ..., found ...".
"""
import re

KEYWORDS = ("strict", "graph", "digraph", "node", "edge", "subgraph")
COMPASS = ("n", "ne", "e", "se", "s", "sw", "w", "nw", "c", "_")
_NUM = re.compile(r"-?(?:\.[0-9]+|[0-9]+(?:\.[0-9]*)?)")
_QRUN = re.compile(r'[^"\\\n]+')
_PUNCT = "{}[];,=:+"


class DotError(Exception):
    def __init__(self, line, col, msg):
        Exception.__init__(self, "line %d col %d: %s" % (line, col, msg))


def _idstart(c):
    return c == "_" or "a" <= c <= "z" or "A" <= c <= "Z" or ord(c) >= 0x80


def _idchar(c):
    return _idstart(c) or "0" <= c <= "9"


def _lex(text):
    """Lazily yields (kind, value, line, col); kind in id qstr html kw op punct eof.
    Lazy so that the first error in file order wins, whether lexical or syntactic."""
    n, line = len(text), 1
    i = bol = 1 if text.startswith("\ufeff") else 0
    while i < n:
        c, col = text[i], i - bol + 1
        if c == "\n":
            i += 1; line += 1; bol = i
        elif c in " \t\r":
            i += 1
        elif c == "#" and i == bol or text.startswith("//", i):
            j = text.find("\n", i)
            i = n if j < 0 else j
        elif text.startswith("/*", i):
            j = text.find("*/", i + 2)
            if j < 0:
                raise DotError(line, col, "unterminated /* comment (opened here)")
            k = text.count("\n", i, j)
            if k:
                line += k; bol = text.rfind("\n", i, j) + 1
            i = j + 2
        elif c == '"':
            sl, buf = line, []
            i += 1
            while True:
                if i >= n:
                    raise DotError(sl, col, "unterminated quoted string (opened here, runs to end of input)")
                m = _QRUN.match(text, i)
                if m:
                    buf.append(m.group()); i = m.end(); continue
                d = text[i]
                if d == '"':
                    i += 1; break
                if d == "\n":
                    buf.append(d); i += 1; line += 1; bol = i
                elif i + 1 < n and text[i + 1] == '"':      # the only escape: \" -> "
                    buf.append('"'); i += 2
                elif i + 1 < n and text[i + 1] == "\n":     # line continuation
                    i += 2; line += 1; bol = i
                else:                                       # \x stays \x (incl. \\)
                    buf.append(text[i:i + 2]); i += 2
            yield ("qstr", "".join(buf), sl, col)
        elif c == "<":
            sl, depth, j = line, 1, i + 1
            while j < n and depth:
                d = text[j]
                depth += (d == "<") - (d == ">")
                if d == "\n":
                    line += 1; bol = j + 1
                j += 1
            if depth:
                raise DotError(sl, col, "unterminated <html string> (opened here)")
            yield ("html", text[i:j], sl, col); i = j
        elif c == "-" and text[i + 1:i + 2] in (">", "-"):
            yield ("op", text[i:i + 2], line, col); i += 2
        elif c in "-.0123456789":
            m = _NUM.match(text, i)
            if not m:
                raise DotError(line, col, "'-' must begin '->', '--' or a numeral" if c == "-"
                               else "unexpected character %r" % c)
            i = m.end()
            if i < n and (_idchar(text[i]) or text[i] == "."):
                raise DotError(line, i - bol + 1, "badly delimited numeral %r followed directly by %r"
                               % (m.group(), text[i]))
            yield ("id", m.group(), line, col)
        elif _idstart(c):
            j = i + 1
            while j < n and _idchar(text[j]):
                j += 1
            w = text[i:j]
            yield ("kw", w.lower(), line, col) if w.lower() in KEYWORDS else ("id", w, line, col)
            i = j
        elif c in _PUNCT:
            yield ("punct", c, line, col); i += 1
        else:
            raise DotError(line, col, "unexpected character %r outside any string" % c)
    yield ("eof", "", line, n - bol + 1)


def _q(v):
    return repr(v if len(v) <= 30 else v[:30] + "...")


def _show(t):
    if t[0] == "eof":
        return "end of input"
    return {"id": "identifier ", "qstr": "quoted string ", "html": "html string ", "kw": "keyword "}.get(t[0], "") + _q(t[1])


class _Parser:
    def __init__(self, text):
        self.g = _lex(text)
        self.cur = next(self.g)

    def peek(self):
        return self.cur

    def at(self, kind, val=None):
        return self.cur[0] == kind and (val is None or self.cur[1] == val)

    def next(self):
        t = self.cur
        if t[0] != "eof":
            self.cur = next(self.g)
        return t

    def fail(self, expected, t=None):
        t = t or self.peek()
        raise DotError(t[2], t[3], "expected %s, found %s" % (expected, _show(t)))

    def expect(self, val, what=None):
        if not self.at("punct", val):
            self.fail(what or "'%s'" % val)
        return self.next()

    def is_id(self):
        return self.peek()[0] in ("id", "qstr", "html")

    def ident(self, what):
        t = self.peek()
        if t[0] == "kw":
            self.fail(what + " (a keyword must be quoted to be used as an ID)")
        if not self.is_id():
            self.fail(what)
        self.next()
        v = t[1]
        while t[0] == "qstr" and self.at("punct", "+"):
            self.next()
            if not self.at("qstr"):
                self.fail("a quoted string after '+'")
            v += self.next()[1]
        return v

    # ---- grammar -------------------------------------------------------
    def graph(self):
        strict = self.at("kw", "strict")
        if strict:
            self.next()
        if not (self.at("kw", "graph") or self.at("kw", "digraph")):
            self.fail("'graph' or 'digraph'")
        self.directed = self.next()[1] == "digraph"
        name = self.ident("graph name or '{'") if not self.at("punct", "{") else ""
        root = self.scope(name, {}, {})
        self.G = {"strict": strict, "directed": self.directed, "name": name, "nodes": {}, "edges": [],
                  "subgraphs": root["subgraphs"], "graph_attrs": root["attrs"],
                  "node_defaults": root["nd"], "edge_defaults": root["ed"], "node_inherited": {}}
        self.stack = [root]
        self.body("graph")
        if not self.at("eof"):
            self.fail("end of input after the graph's closing '}' (trailing text)")
        _strip(root)
        return self.G

    @staticmethod
    def scope(name, nd, ed):
        return {"name": name, "attrs": {}, "nodes": [], "edges": [], "subgraphs": [],
                "nd": dict(nd), "ed": dict(ed), "_set": set(), "_sub": {}}

    def body(self, what):
        o = self.expect("{", "'{' to open the %s body" % what)
        while not self.at("punct", "}"):
            if self.at("eof"):
                self.fail("a statement or '}' closing the %s body opened at line %d col %d" % (what, o[2], o[3]))
            self.stmt()
            if self.at("punct", ";"):
                self.next()
        self.next()

    def stmt(self):
        t, cur = self.peek(), self.stack[-1]
        if t[0] == "kw" and t[1] in ("graph", "node", "edge"):
            self.next()
            if not self.at("punct", "["):
                self.fail("'[' after '%s'" % t[1])
            {"graph": cur["attrs"], "node": cur["nd"], "edge": cur["ed"]}[t[1]].update(self.attr_list())
            return
        if self.at("kw", "subgraph") or self.at("punct", "{"):
            left = self.subgraph()
        elif self.is_id():
            name = self.ident("a statement")
            if self.at("punct", "="):
                self.next()
                cur["attrs"][name] = self.ident("a value after %s =" % _q(name))
                return
            left = self.node_tail(name)
        else:
            self.fail("a statement (node, edge, attribute, subgraph) or '}'")
        if not self.at("op"):
            if left[0] == "node":
                self.G["nodes"][left[1]].update(self.attr_list())
            return
        ends = [left]
        while self.at("op"):
            op = self.next()
            if op[1] != ("->" if self.directed else "--"):
                self.fail("edge operator '%s' in a %s" % (("->", "digraph") if self.directed else ("--", "graph")), op)
            if self.at("kw", "subgraph") or self.at("punct", "{"):
                ends.append(self.subgraph())
            else:
                ends.append(self.node_tail(self.ident("an edge target (node id or subgraph) after '%s'" % op[1])))
        attrs = self.attr_list()
        for a, b in zip(ends, ends[1:]):
            for f, fp in ([(a[1], a[2])] if a[0] == "node" else [(x, None) for x in a[1]]):
                for g, gp in ([(b[1], b[2])] if b[0] == "node" else [(x, None) for x in b[1]]):
                    e = {"f": f, "t": g, "attrs": dict(attrs), "inherited": dict(cur["ed"])}
                    if fp:
                        e["f_port"] = fp
                    if gp:
                        e["t_port"] = gp
                    for s in self.stack[1:]:
                        s["edges"].append(len(self.G["edges"]))
                    self.G["edges"].append(e)

    def node_tail(self, name):
        """optional port after a node id; registers the node. -> ("node", id, port|None)"""
        port = None
        if self.at("punct", ":"):
            self.next()
            port = self.ident("a port name or compass point after ':'")
            if self.at("punct", ":"):
                self.next()
                t = self.peek()
                c = self.ident("a compass point after ':'")
                if t[0] != "id" or c not in COMPASS:
                    self.fail("a compass point (n ne e se s sw w nw c _)", t)
                port += ":" + c
        if name not in self.G["nodes"]:
            self.G["nodes"][name] = {}
            self.G["node_inherited"][name] = dict(self.stack[-1]["nd"])
        for s in self.stack[1:]:
            if name not in s["_set"]:
                s["_set"].add(name); s["nodes"].append(name)
        return ("node", name, port)

    def attr_list(self):
        attrs = {}
        while self.at("punct", "["):
            o = self.next()
            while not self.at("punct", "]"):
                kt = self.peek()
                k = self.ident("an attribute name or ']' closing the '[' at line %d col %d" % (o[2], o[3]))
                self.expect("=", "'=' after attribute name %s (at line %d col %d)" % (_q(k), kt[2], kt[3]))
                attrs[k] = self.ident("a value for attribute %s" % _q(k))
                if self.at("punct", ";") or self.at("punct", ","):
                    self.next()
            self.next()
        return attrs

    def subgraph(self):
        name = ""
        if self.at("kw", "subgraph"):
            self.next()
            if not self.at("punct", "{"):
                name = self.ident("subgraph name or '{'")
        par = self.stack[-1]
        sub = par["_sub"].get(name) if name else None
        if sub is None:
            sub = self.scope(name, par["nd"], par["ed"])
            par["subgraphs"].append(sub)
            if name:
                par["_sub"][name] = sub
        self.stack.append(sub)
        self.body("subgraph")
        self.stack.pop()
        return ("sub", list(sub["nodes"]), None)


def _strip(scope):
    for s in scope["subgraphs"]:
        for k in ("nd", "ed", "_set", "_sub"):
            del s[k]
        _strip(s)


def parse_dot(text):
    """Parse one DOT graph. Extra keys beyond the agreed interface: graph["node_inherited"][id] = the
    `node [..]` defaults in scope where the node was first mentioned (how Graphviz assigns them),
    edge["inherited"] likewise for `edge [..]`, edge["f_port"/"t_port"] when a port was given.
    node_defaults/edge_defaults are the root-scope defaults at the end of the file."""
    try:
        return {"ok": True, "error": "", "graph": _Parser(text).graph()}
    except DotError as e:
        return {"ok": False, "error": str(e), "graph": None}
    except RecursionError:
        return {"ok": False, "error": "line 0 col 0: subgraphs nested too deeply for this reader", "graph": None}


def decode_label(value):
    """Graphviz escString processing of a label value as delivered by the lexer."""
    out, i, n = [], 0, len(value)
    while i < n:
        c = value[i]
        if c != "\\" or i + 1 >= n:
            out.append(c); i += 1
            continue
        d = value[i + 1]
        out.append("\n" if d in "nlr" else c + d if d in "NGETHL" else d)
        i += 2
    return "".join(out)


if __name__ == "__main__":
    import json, sys
    for path in sys.argv[1:]:
        with open(path, encoding="utf-8", errors="surrogateescape") as fh:
            r = parse_dot(fh.read())
        print(path, "OK" if r["ok"] else "INVALID " + r["error"])
        if r["ok"] and len(sys.argv) == 2:
            json.dump(r["graph"], sys.stdout, indent=1); print()
