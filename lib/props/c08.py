# C08 - grammar mistakes are rejected with the right diagnostic; clean grammars pass.
# Corpus: clean-by-construction random grammars, each also with one planted mistake per class (any nesting depth,
# behind 0-3 definitions, in a variant or a used definition; cycles of length 1-4 with and without an entry point),
# x 4 target shells.  Observed: exit status and class of the first diagnostic of the command (in-process front end,
# confirmed with the real binary when alarming) and the library's Error variant.  Decided by TLC (VerdictCheck.tla)
# against Meaning.Verdicts computed from the generator's tree.
import json, random, re, time
import core, corpus, gen, plant, cli
from gen import L, R, C

MESSAGES = [
    ("Parse error", "parse"), ("Invalid command name", "invalid_name"), ("Varying command names", "varying_names"),
    ("Nonterminal definitions cycle", "cycle"), ("Duplicate nonterminal definition", "duplicate_def"), ("Unknown shell", "unknown_shell"),
    ("Can only specialize external commands", "noncommand_spec"), ("Adjacent literals in expression used in a subword context", "subword_spaces"),
    ("Ambiguous grammar", "unbounded"), ("DFA Ambiguity", "ambiguous_dfa"), ("Conflicting descriptions", "conflicting_descr"),
    ("Grammar needs to contain at least one call variant", "missing_variants"),
]


def diag_class(stderr):
    """class of the first diagnostic on stderr (projection of the text, no judgement)"""
    best = None
    for msg, cls in MESSAGES:
        i = stderr.find(msg)
        if i >= 0 and (best is None or i < best[0]):
            best = (i, cls)
    if best:
        return best[1]
    if "panicked at" in stderr:
        return "panic"
    if "overflowed its stack" in stderr:
        return "stack_overflow"
    return "other" if stderr.strip() else "none"


def tricky_clean():
    """clean grammars in the corners of the converse clause: placeholders that are last in their word but sit in
    one branch of an alternative whose other branches go on; shell-specific definitions over command / absent plain ones"""
    from gen import L, R, C
    U, X = R("UNDEF"), R("X")
    out = [
        ([("seq", [("sub", [L("--opt="), ("alt", [("seq", [L("a"), ("alt", [L("p"), L("q")])]), U])]), L("z")])], []),
        ([("sub", [L("--opt="), ("alt", [U, L("a")])])], []),
        ([("sub", [L("k="), ("alt", [("seq", [L("x"), L(",y")]), R("_")])])], []),
        ([("sub", [L("-o"), ("opt", ("alt", [L("a"), U]))])], []),
        ([("sub", [L("--p="), ("fb", [("seq", [L("v"), ("opt", L("w"))]), U])])], []),
        ([("seq", [("sub", [L("--d="), X]), L("t")])], [("X", "", ("alt", [("seq", [L("a"), L(":b")]), U]))]),
        ([("sub", [("alt", [L("a"), L("b")]), ("alt", [("seq", [L("="), ("alt", [L("1"), L("2")])]), U])])], []),
        ([("seq", [X, L("t")])], [("X", "bash", C("echo b")), ("X", "fish", C("echo f"))]),
        ([("seq", [X, L("t")])], [("X", "", C("echo plain")), ("X", "zsh", C("echo z"))]),
        ([("sub", [L("--x="), X])], [("X", "pwsh", C("echo p"))]),
        ([("many", ("alt", [("sub", [L("--a="), U]), ("sub", [L("--b="), ("alt", [L("1"), L("2")])]), L("c")]))], []),
        ([("seq", [L("a", "one"), L("x")]), ("seq", [L("a", "one"), L("y")])], []),
        ([("alt", [("seq", [L("same", "d"), L("x")]), ("seq", [L("other", "e"), L("same", "f")])])], []),
    ]
    # definitions shared under a common ancestor (diamond, triangle, longer joins): acyclic, must be accepted
    A, B, Cn, D, E = R("A"), R("B"), R("C"), R("D"), R("E")
    out += [
        ([A], [("A", "", ("alt", [B, Cn])), ("B", "", ("seq", [L("x"), D])), ("C", "", ("seq", [L("y"), D])), ("D", "", L("d"))]),
        ([A], [("A", "", ("seq", [B, Cn])), ("B", "", ("seq", [L("b"), Cn])), ("C", "", L("c"))]),
        ([("seq", [A, L("t")])], [("A", "", ("alt", [B, Cn])), ("B", "", ("seq", [L("x"), D])), ("C", "", ("seq", [L("y"), D])), ("D", "", ("seq", [L("d"), E])),
                                  ("E", "", ("alt", [L("e1"), L("e2")]))]),
        ([("alt", [A, B])], [("A", "", ("seq", [L("a"), Cn])), ("B", "", ("seq", [L("b"), Cn])), ("C", "", ("opt", D)), ("D", "", L("d"))]),
        ([A], [("A", "", ("seq", [("sub", [L("--in="), B]), ("sub", [L("--out="), B])])), ("B", "", ("alt", [L("json"), L("yaml")]))]),
    ]
    # ill-formed (the specification decides): the blank sits after a nested group / an inlined definition whose LAST item is a literal
    # and whose first item is not one
    out += [
        ([("sub", [L("--opt="), ("seq", [("seq", [("alt", [L("x"), L("y")]), L("b")]), L("c")])])], []),
        ([("sub", [L("--opt="), A])], [("A", "", ("seq", [B, L("c")])), ("B", "", ("seq", [("alt", [L("x"), L("y")]), L("b")]))]),
        ([("seq", [L("go"), ("sub", [L("--level="), A]), ("opt", L("-v"))])], [("A", "", ("seq", [B, L("high")])), ("B", "", ("seq", [C("echo 1"), L("low")]))]),
    ]
    return out


def dag_grammars(rnd, n):
    """random acyclic definition graphs with shared descendants"""
    out = []
    for _ in range(n):
        k = rnd.randint(3, 6)
        # names differ from grammar to grammar: the order in which complgen walks its name-keyed hash tables depends on them
        names = []
        while len(names) < k:
            nm = rnd.choice("ABCDEFGHJKLMNOPQRSTVWYZ") + "".join(rnd.choice("abcdefghijklmnopqrstuvwxyz0123456789-") for _ in range(rnd.randint(1, 6)))
            if nm not in names and not nm.endswith("-"):
                names.append(nm)
        defs = []
        for i, nm in enumerate(names):
            later = names[i + 1:]
            refs = rnd.sample(later, min(len(later), rnd.randint(1, 2))) if later else []
            items = [L("%s%d" % (nm.lower(), j)) for j in range(rnd.randint(1, 2))] + [R(x) for x in refs]
            rnd.shuffle(items)
            body = items[0] if len(items) == 1 else (rnd.choice(["seq", "alt"]), items)
            defs.append((nm, "", body))
        rnd.shuffle(defs)
        if rnd.random() < 0.5:
            out.append(([("seq", [R(names[0]), L("end")])], defs))
        else:       # two entry points that share descendants
            out.append(([("alt", [("seq", [L("move"), R(names[0])]), ("seq", [L("start"), R(names[1])])])], defs))
    return out


def sink_cycles(rnd, n):
    """a cycle among definitions that also refers to definitions outside it, and no definition that nothing refers to (so every
    definition is depended on): the walk that looks for a sample cycle may start at a definition that leads to none; which one it
    starts at depends on the names, so they are drawn per grammar"""
    out = []
    for k in range(n):
        names = []
        while len(names) < 5:
            nm = rnd.choice("ABCDEFGHJKLMNOPQRSTVWYZ") + "".join(rnd.choice("abcdefghijklmnopqrstuvwxyz0123456789") for _ in range(rnd.randint(1, 6)))
            if nm not in names:
                names.append(nm)
        a, b, s1, s2, s3 = names
        shape = k % 3
        if shape == 0:
            defs = [(a, "", ("seq", [R(b), R(s1)])), (b, "", R(a)), (s1, "", L("s"))]
        elif shape == 1:
            defs = [(a, "", ("seq", [R(b), R(s1), R(s2)])), (b, "", ("alt", [R(a), L("x")])), (s1, "", L("s")), (s2, "", ("seq", [L("t"), R(s3)])), (s3, "", L("u"))]
        else:
            defs = [(a, "", ("seq", [L("x"), R(b)])), (b, "", ("seq", [R(s1), R(a)])), (s1, "", ("alt", [L("s"), R(s2)])), (s2, "", L("t"))]
        rnd.shuffle(defs)
        out.append(([("seq", [L("go"), R(a)])] if k % 2 else [L("plain")], defs))
    return out


def graph_grammars(tier, seed):
    """definition graphs as grammars: every digraph on three definitions (self-loops included) and random ones on 4-7; the names
    are drawn per grammar because the order in which complgen walks its name-keyed hash tables depends on them"""
    rnd = random.Random(seed * 7919 + 11)
    graphs = []
    for mask in range(1 << 9):
        graphs.append((3, {(a, b) for i, (a, b) in enumerate((a, b) for a in range(3) for b in range(3)) if mask >> i & 1}))
    for _ in range(400 if tier == "quick" else 6000):
        k = rnd.randint(4, 7)
        dens = rnd.choice([0.1, 0.2, 0.35])
        graphs.append((k, {(a, b) for a in range(k) for b in range(k) if rnd.random() < dens * (0.3 if a == b else 1)}))
    out = []
    for gi, (k, edges) in enumerate(graphs):
        names = []
        while len(names) < k:
            nm = rnd.choice("ABCDEFGHJKLMNOPQRSTVWYZ") + "".join(rnd.choice("abcdefghijklmnopqrstuvwxyz0123456789") for _ in range(rnd.randint(1, 5)))
            if nm not in names:
                names.append(nm)
        lines = ["cmd go <%s>;" % names[0] if gi % 2 else "cmd plain;"]
        order = list(range(k))
        rnd.shuffle(order)
        for a in order:
            items = ["w%d" % a] + ["<%s>" % names[b] for b in range(k) if (a, b) in edges]
            rnd.shuffle(items)
            lines.append("<%s> ::= %s;" % (names[a], (" | " if rnd.random() < 0.3 else " ").join(items)))
        graph = [[names[a], sorted(names[b] for b in range(k) if (a, b) in edges)] for a in range(k)]
        out.append({"id": gi + 1, "usage": "\n".join(lines) + "\n", "shell": rnd.choice(["bash", "fish", "zsh", "pwsh"]), "graph": graph})
    return out


def resolve_mechanism(tier, seed, v, corrupt=None, env=None, limit=None, corpus_cases=()):
    """Resolve.tla / ResolveTrace.tla: (i) trace validation - the steps the instrumented get_nonterminals_resolution_order reported
    (hook events ro_*, feature `verif`) are a behaviour of the model whose constants are the GENERATOR's dependency graph, and the
    verdict of validation is the one the model ends in (cycle error iff the graph is cyclic: a C08 verdict, confirmed with the real
    binary before it is reported); (ii) design level - every iteration order on every graph of three definitions (notes)."""
    import os, subprocess, tempfile
    cases = graph_grammars(tier, seed)
    if limit:
        cases = cases[::max(1, len(cases) // limit)]
        for k, c in enumerate(cases):
            c["id"] = k + 1
    rec = core.record("order", [{"id": c["id"], "usage": c["usage"], "shell": c["shell"]} for c in cases])
    tcases, graph_differs = [], 0
    for c, r in zip(cases, rec):
        o = r["obs"]
        evs = o.get("events", [])
        c["_verdict"] = "ok" if o.get("verdict") == "ok" else (o.get("err", {}).get("class", "other") if o.get("verdict") == "error" else "panic")
        c["_msg"] = o.get("msg", "")
        if evs and evs[0].get("ev") == "ro_init":
            reported = sorted([g[0], sorted(g[1])] for g in evs[0]["graph"])
            if reported != sorted(c["graph"]):
                graph_differs += 1
            evs = evs[1:]
        tcases.append({"id": c["id"], "graph": c["graph"], "events": evs, "verdict": c["_verdict"]})
    # the steps the search takes on the check's own corpus (planted mistakes of every class, shell-specific definitions): here the
    # model's constants are the graph the code reports, so only the steps and the model's invariants are judged, not the verdict
    ncorpus = 0
    if corpus_cases:
        pick = list(corpus_cases)[::max(1, len(corpus_cases) // (300 if tier == "quick" else 3000))]
        rec2 = core.record("order", [{"id": k, "usage": c["usage"], "shell": c["shell"]} for k, c in enumerate(pick)])
        for c, r in zip(pick, rec2):
            evs = r["obs"].get("events", [])
            if not evs or evs[0].get("ev") != "ro_init" or len(evs) > 200:
                continue
            o = r["obs"]
            cid = 100000 + ncorpus
            ncorpus += 1
            cases.append({"id": cid, "usage": c["usage"], "shell": c["shell"], "graph": evs[0]["graph"], "_corpus": True, "_verdict": "n/a", "_msg": ""})
            tcases.append({"id": cid, "graph": evs[0]["graph"], "events": evs[1:],
                           "verdict": "cycle" if o.get("verdict") == "error" and o.get("err", {}).get("class") == "cycle" else "ok"})
    if corrupt:
        corrupt(tcases)
    res = core.run_tlc_sharded("ResolveTrace.tla", "ResolveTrace.cfg", tcases, shards=8, workers=1, prefix="resolvetrace", timeout=3000, env=env)
    acc = {x[0]: (x[1], x[2]) for x in res.tagged("ACCEPTED")}
    expect = {x[0]: x[1] for x in res.tagged("EXPECT")}
    at = {}
    for x in res.tagged("AT"):
        at[x[0]] = max(at.get(x[0], 0), x[1])
    mech = sorted({(x[0], x[1]) for x in res.tagged("MECH")})
    byid = {c["id"]: c for c in cases}
    if len(expect) < len(cases):
        raise core.ToolError("ResolveTrace: %d of %d cases evaluated" % (len(expect), len(cases)))
    rejected = [c["id"] for c in tcases if c["id"] not in acc]
    tbyid = {c["id"]: c for c in tcases}
    for i in rejected[:3]:
        core.log("MODEL-DRIFT (not a verdict): the recorded steps of get_nonterminals_resolution_order for %r are not a behaviour of Resolve.tla (matched %d of %d events)" % (
            byid[i]["usage"].replace("\n", " "), at.get(i, 0), len(tbyid[i]["events"])))
    for i, what in mech[:3]:
        core.log("MODEL-DRIFT (not a verdict): `%s` of Resolve.tla broken on the recorded steps for %r" % (what, byid[i]["usage"].replace("\n", " ")))
    # verdicts: cyclic (per Resolve.tla's schedule-free reference on the generator's graph) <=> cycle error, else accepted
    nver = 0
    for c in cases:
        if c.get("_corpus"):
            continue
        want = "cycle" if expect[c["id"]] == "cyclic" else "ok"
        if c["_verdict"] == want:
            nver += 1
            continue
        tmp = tempfile.mkdtemp(prefix="resolve-", dir=os.path.join(core.WORK, "tlc"))
        src = os.path.join(tmp, "in.usage")
        open(src, "w").write(c["usage"])
        p = subprocess.run([core.BIN, "--" + c["shell"], os.path.join(tmp, "out"), src], capture_output=True, text=True, timeout=120)
        cls = diag_class(p.stderr) if p.returncode != 0 else ""
        __import__("shutil").rmtree(tmp, ignore_errors=True)
        real = "ok" if p.returncode == 0 else cls
        if real == want:
            continue            # the in-process observation did not reproduce with the real binary: not reported
        crash = p.returncode not in (0, 1)
        sig = {"kind": "crash" if crash else ("missed" if want == "cycle" else "false_reject"), "expected": ["cycle"] if want == "cycle" else [],
               "observed": cls, "planted": "cycle" if want == "cycle" else "", "site_shape": "definition_graph"}
        if crash:
            sig["how"] = cls
            m2 = re.search(r"panicked at \S*?(src/[a-z_]+\.rs)", p.stderr)
            sig["where"] = m2.group(1) if m2 else ""
        what = "%s [%s]: definition graph is %s, expected %s, observed exit %d class `%s`%s" % (
            c["usage"].strip().replace("\n", " "), c["shell"], expect[c["id"]], "exit 1 with `cycle`" if want == "cycle" else "exit 0",
            p.returncode, cls, " stderr: " + p.stderr[:160].replace("\n", " | ") if crash else "")
        v.mismatch(sig, what, {"usage": c["usage"], "shell": c["shell"], "expected": sig["expected"], "observed": {"exit": p.returncode, "class": cls}})
    out = {"graph_grammars": len(cases) - ncorpus, "corpus_grammars_traced": ncorpus, "cyclic": sum(1 for x in expect.values() if x == "cyclic"), "verdicts_as_the_model_says": nver,
           "traces": len(tcases), "traces_accepted": len(acc), "traces_not_a_behaviour": len(rejected), "trace_events": sum(len(c["events"]) for c in tcases),
           "traces_ending_in_cycle": sum(1 for a in acc.values() if a[0] == "cycle"), "traces_ending_in_done": sum(1 for a in acc.values() if a[0] == "done"),
           "reported_graph_differs_from_generators": graph_differs, "invariant_reports_on_traces": len(mech), "rejected_ids": rejected[:10],
           "trace_states": res.distinct}
    # design level: all iteration orders on all graphs of three definitions
    small = []
    names = ["A", "B", "C"]
    pairs = [(a, b) for a in range(3) for b in range(3)]
    for mask in range(1 << 9):
        small.append({"id": mask + 1, "graph": [[names[a], [names[b] for i, (x, b) in enumerate(pairs) if x == a and mask >> i & 1]] for a in range(3)]})
    if tier != "quick":
        rnd = random.Random(seed)
        n4 = ["A", "B", "C", "D"]
        p4 = [(a, b) for a in range(4) for b in range(4)]
        for k in range(4000):
            mask = rnd.getrandbits(16)
            small.append({"id": 1000 + k, "graph": [[n4[a], [n4[b] for i, (x, b) in enumerate(p4) if x == a and mask >> i & 1]] for a in range(4)]})
    res2 = core.run_tlc_sharded("Resolve.tla", "Resolve.cfg", small, shards=8, workers=2, prefix="resolve", timeout=3000, env=env)
    ends = {}
    for x in res2.tagged("END"):
        ends.setdefault(x[0], set()).add((x[1], x[2]))
    bad = sorted({(x[0], x[1]) for x in res2.tagged("MECH")})
    for i, what in bad[:5]:
        core.log("MODEL-PREDICTION (design level, not a verdict): some iteration order of the modelled resolution-order search breaks `%s` on graph %s" % (what, json.dumps([s for s in small if s["id"] == i][0]["graph"])))
    out.update({"design_graphs": len(small), "design_terminated": len(ends), "design_states": res2.distinct, "design_transitions": res2.generated,
                "design_invariant_reports": len(bad), "graphs_with_more_than_one_possible_order": sum(1 for e in ends.values() if len(e) > 1),
                "note": "every order of trying roots and following children, as modelled in Resolve.tla (Walk, CycleSound, CycleComplete, Reachable, "
                        "OrderOk, Once in every state), on every digraph over three definitions%s" % ("" if tier == "quick" else " and 4000 random ones over four")})
    return out


def build_corpus(tier, seed):
    rnd = random.Random(seed)
    nbase = 60 if tier == "quick" else 700
    cases = []
    for variants, defs in sink_cycles(rnd, 12 if tier == "quick" else 90):
        sh = rnd.choice(gen.SHELLS)
        c = gen.case(variants, defs, shell=sh)
        corpus.finish(c, len(cases) + 1, origin="sink_cycle", planted="cycle", site={"shape": "sink_cycle"}, planted_for=sh, base=0,
                      opt={"dest": "file", "destname": "_cmd" if sh == "zsh" else "out.script"})
        cases.append(c)
    for variants, defs in tricky_clean() + dag_grammars(rnd, 15 if tier == "quick" else 200):
        for sh in gen.SHELLS:
            c = gen.case(variants, defs, shell=sh)
            corpus.finish(c, len(cases) + 1, origin="tricky_clean", planted="", site={}, planted_for="", base=0,
                          opt={"dest": "file", "destname": "_cmd" if sh == "zsh" else "out.script"})
            cases.append(c)
    made = 0
    tries = 0
    while made < nbase and tries < nbase * 40:
        tries += 1
        variants, defs = corpus.random_grammar(rnd, depth=rnd.choice([2, 3, 4]), with_probes=False, p_spec=0.3)
        if not corpus.clean(variants, defs) or corpus.leaves_count(variants, defs) > 40:
            continue
        made += 1
        todo = [("", None)] + [(cls, None) for cls in plant.CLASSES]
        if tier == "thorough":
            todo += [(cls, None) for cls in ("cycle", "subword_spaces", "unbounded", "conflicting_descr")]
        for cls, _ in todo:
            psh = rnd.choice(gen.SHELLS)
            if cls:
                try:
                    vs, ds, site = plant.plant(variants, defs, cls, rnd, psh)
                except Exception as e:      # a generator limitation is not an observation
                    continue
            else:
                vs, ds, site = [("cmd", v) for v in variants], list(defs), {}
            for sh in gen.SHELLS:
                c = gen.case(vs, ds, shell=sh, named=True)
                pl = "" if (cls == "duplicate_def" and site.get("kind") == "spec_target" and sh != psh) else cls
                corpus.finish(c, len(cases) + 1, origin="random", planted=pl, site=site, planted_for=psh, base=made,
                              opt={"dest": "file", "destname": "_cmd" if sh == "zsh" else "out.script"})
                cases.append(c)
    return cases


def run(tier):
    t0 = time.time()
    core.build()
    seed = core.seed()
    cases = build_corpus(tier, seed)
    obs, stats = cli.observe(cases, sample=60 if tier == "quick" else 300, seed=seed, alarming=lambda o: o.get("exit") not in (0, 1))
    lib = core.record("compile", [{"usage": c["usage"], "shell": c["shell"]} for c in cases])
    for c, o, l in zip(cases, obs, lib):
        lo = l["obs"]
        if lo.get("verdict") == "ok":
            libclass = ""
        elif lo.get("verdict") == "error":
            libclass = lo["err"]["class"]
        else:
            libclass = "skip"           # the library call died; the command's outcome is what counts
        c["obs"] = {"exit": o["exit"], "class": diag_class(o.get("stderr", "")) if o["exit"] != 0 else "", "libclass": libclass}
        c["_obs"] = o
    strip = [{k: v for k, v in c.items() if not k.startswith("_") and k not in ("site", "opt")} for c in cases]
    res = core.run_tlc_sharded("VerdictCheck.tla", "VerdictCheck.cfg", strip, shards=12, workers=2, prefix="verdict", timeout=3000)
    byid = {c["id"]: c for c in cases}
    v = core.Verdict("C08")
    for m in res.tagged("MISMATCH"):
        d = json.loads(m[0])
        c = byid[d["id"]]
        o = c["_obs"]
        if o.get("unconfirmed"):
            continue
        sig = {"kind": d["kind"], "expected": sorted(d["expected"]), "observed": d["class"], "planted": d["planted"]}
        for k in ("entry", "shape", "kind", "edge_ref"):
            if k in c.get("site", {}):
                sig["site_" + k] = c["site"][k]
        if d["kind"] == "crash":
            sig["how"] = diag_class(o.get("stderr", ""))
            m2 = re.search(r"panicked at \S*?(src/[a-z_]+\.rs)", o.get("stderr", ""))
            sig["where"] = m2.group(1) if m2 else ""
        what = "%s [%s]: expected %s, observed exit %s class `%s` (library: `%s`)%s" % (
            c["usage"].strip().replace("\n", " "), c["shell"], "exit 0" if not d["expected"] else "exit 1 with one of %s" % sorted(d["expected"]),
            d["exit"], d["class"], d["libclass"], " stderr: " + o.get("stderr", "")[:160].replace("\n", " | ") if d["kind"] == "crash" else "")
        v.mismatch(sig, what, {"usage": c["usage"], "shell": c["shell"], "expected": sorted(d["expected"]), "observed": {"exit": d["exit"], "class": d["class"]}})
    mechanism = resolve_mechanism(tier, seed, v, corpus_cases=cases)
    val = res.tagged("VALIDATED")
    nval, nskip, ndoubt = len(val), len(res.tagged("SKIPPED")), len(res.tagged("ORACLE-DOUBT"))
    if nval + nskip + ndoubt < len(cases) or nval < len(cases) // 2:
        raise core.ToolError("vacuity: %d validated, %d skipped, %d oracle doubts of %d" % (nval, nskip, ndoubt, len(cases)))
    doubts = {}
    for x in res.tagged("ORACLE-DOUBT"):
        c = byid[x[0]]
        doubts.setdefault(c["planted"], []).append(c)
    for k, cs in sorted(doubts.items()):
        core.log("ORACLE-DOUBT planted=%s n=%d e.g. [%s] %s site=%s" % (k, len(cs), cs[0]["shell"], cs[0]["usage"].strip().replace("\n", " "), cs[0].get("site")))
    if ndoubt > len(cases) // 20:
        raise core.ToolError("the oracle disagrees with the generator's planting on %d of %d cases" % (ndoubt, len(cases)))
    planted_classes = {c["planted"] for c in cases}
    if not set(plant.CLASSES) <= planted_classes:
        raise core.ToolError("vacuity: classes never planted: %s" % (set(plant.CLASSES) - planted_classes))
    per_class = {}
    for c in cases:
        per_class[c["planted"] or "clean"] = per_class.get(c["planted"] or "clean", 0) + 1
    samples = [{"usage": c["usage"], "shell": c["shell"], "planted": c["planted"], "exit": c["obs"]["exit"], "class": c["obs"]["class"]}
               for c in cases[5:: max(1, len(cases) // 6)][:6]]
    cov = {"states": res.distinct, "transitions": res.generated, "traces_validated_against_impl": nval, "samples": samples,
           "programs": len({c["usage"] for c in cases}), "evaluations": len(cases), "skipped_open_region": nskip, "oracle_doubts": ndoubt, "oracle_doubts_by_class": {k: len(x) for k, x in doubts.items()},
           "distinct_nontrivial": len({(c["usage"], c["shell"]) for c in cases if c["planted"]}),
           "clean_validated": sum(1 for x in val if x[1] == "clean"), "ill_formed_validated": sum(1 for x in val if x[1] == "ill-formed"),
           "per_planted_class": per_class, "front_end": stats, "resolution_order_mechanism": mechanism,
           "rule": "seeded clean-by-construction grammars (0-4 definitions, shell-specific definitions, within-word expressions, || levels, descriptions) "
                   "each as is and with one planted mistake per class at a random site (variant or used definition, behind 0-3 definitions, under "
                   "seq/alt/[ ]/.../||), x 4 shells; non-trivial = planted grammar, distinct by (usage, shell)",
           "known_findings_hit": sorted(v.known_hits)}
    rc = v.finish()
    core.write_evidence("C08", tier, "model_checking", cov,
                        ["runs go through main.rs compiled into the recorder (std::process::exit replaced by an unwinding shim); a random sample and every "
                         "non-0/1 outcome are re-run with the real binary and only the binary's observation is reported",
                         "the class of a diagnostic is read off its message text",
                         "grammars in regions the property leaves open (plain non-command definition of a specialised nonterminal) are skipped and counted"],
                        time.time() - t0, len(v.violations))
    return rc
