# C15 - warnings are complete, precise and harmless.
# Exhaustive reference structures for two nonterminals: each is {defined plain, defined for the target shell, defined for
# another shell only, undefined} x referenced {directly, inside a word, only from a used definition, only from an unused
# definition, nowhere}; x 4 shells (thorough: random structures over four names and random layouts).  Observed: the
# `warning:` lines, the exit status and the script of the command.  Decided by TLC: DiagCheck.tla (the set of (kind, name)
# warnings equals Usage.Undefined / UnusedPlain / UnusedSpec, each once, at an occurrence of the name of the right sort,
# exit 0) and MemoCheck.tla (the script equals that of the twin grammar without the definitions no call variant reaches).
import itertools, json, random, time
import core, gen, layout, memo
from gen import L, R, C
from props import c13

DEFS = ["plain", "target", "other", "undef", "plaincmd+target", "plaincmd+other"]
REFS = ["direct", "word", "via_used", "via_unused", "nowhere", "direct+word", "direct+via_used", "via_chain"]


def structure(names_status, shell, rnd=None):
    """-> (variants, defs, twin_defs): twin = the same grammar without the definitions unreachable by construction"""
    others = [s for s in gen.SHELLS if s != shell]
    items = [L("go")]
    defs, twin = [], []
    for k, (nm, (dstat, rstat)) in enumerate(names_status):
        reach = rstat in ("direct", "word", "via_used", "direct+word", "direct+via_used", "via_chain")
        mine = []
        if dstat == "plain":
            mine.append((nm, "", ("alt", [L("%s1" % nm.lower()), L("%s2" % nm.lower())])))
        elif dstat == "target":
            mine.append((nm, shell, C("echo %s" % nm)))
        elif dstat == "other":
            mine.append((nm, others[k % len(others)], C("echo other %s" % nm)))
        elif dstat == "plaincmd+target":
            mine.append((nm, "", C("echo plain %s" % nm)))
            mine.append((nm, shell, C("echo %s" % nm)))
        elif dstat == "plaincmd+other":
            mine.append((nm, "", C("echo plain %s" % nm)))
            mine.append((nm, others[k % len(others)], C("echo other %s" % nm)))
        ref = R(nm)
        helper = "H" + nm
        if rstat in ("direct", "direct+word", "direct+via_used"):
            items.append(ref)
        if rstat in ("word", "direct+word"):
            items.append(("sub", [L("--%s=" % nm.lower()), ref]))
        if rstat in ("via_used", "direct+via_used"):
            mine.append((helper, "", ("seq", [L("h%s" % nm.lower()), ref])))
            items.append(R(helper))
        if rstat == "via_chain":        # reached through three nested definitions
            mine.append((helper + "3", "", ("seq", [L("c%s" % nm.lower()), ref])))
            mine.append((helper + "2", "", ("seq", [L("b%s" % nm.lower()), R(helper + "3")])))
            mine.append((helper + "1", "", ("alt", [R(helper + "2"), L("a%s" % nm.lower())])))
            items.append(R(helper + "1"))
        if rstat == "via_unused":
            mine.append((helper, "", ("seq", [L("h%s" % nm.lower()), ref])))
        defs += mine
        if reach:
            twin += mine
        elif dstat == "other":
            twin += [m for m in mine if m[1] not in ("", shell)]     # definitions for other shells never matter
    variants = [("cmd", ("seq", items + [L("end")]))]
    return variants, defs, twin


def build_corpus(tier, seed):
    rnd = random.Random(seed)
    cases = []
    combos = list(itertools.product(itertools.product(DEFS, REFS), repeat=2))
    nexh = 0
    for combo in combos:
        for sh in gen.SHELLS:
            variants, defs, twin = structure(list(zip(["A", "PATH"], combo)), sh)
            grp = "%s|%s" % (len(cases), sh)
            for which, ds in (("full", defs), ("twin", twin)):
                if which == "twin" and ds == defs:
                    continue
                c = c13.make_case(cases, variants, list(ds), sh, "", rnd, grp=grp, which=which, combo=[list(x) for x in combo])
                c["expect_ok"] = True
                c["blanks"] = layout.default_ids(c["_toks"])
                c["usage"] = layout.render(c["_toks"], c["blanks"])
                c["opt"]["keep"] = False
            nexh += 1
    if tier == "thorough":
        for n in range(1500):
            sh = rnd.choice(gen.SHELLS)
            st = [(nm, (rnd.choice(DEFS), rnd.choice(REFS))) for nm in ["A", "B", "K", "M"]]
            variants, defs, twin = structure(st, sh)
            rnd.shuffle(defs)
            grp = "r%d|%s" % (n, sh)
            for which, ds in (("full", defs), ("twin", twin)):
                c = c13.make_case(cases, variants, list(ds), sh, "", rnd, grp=grp, which=which, combo=[list(x[1]) for x in st])
                c["expect_ok"] = True
                c["blanks"] = layout.default_ids(c["_toks"])
                c["usage"] = layout.render(c["_toks"], c["blanks"])
    return cases, nexh


def run(tier):
    t0 = time.time()
    core.build()
    seed = core.seed()
    cases, nexh = build_corpus(tier, seed)
    rc = c13.decide("C15", tier, cases, ("warning_set", "warning_repeated", "exit"), t0, seed,
                    rule="exhaustive: two nonterminals x {plain, @target, @other shell, undefined} x {referenced directly, inside a word, only from a used "
                         "definition, only from an unused definition, nowhere} (also plain+@target, plain+@other; referenced twice, through a chain of three definitions; the second name is PATH) = 2304 structures x 4 shells (+ 1500 random structures over four names in "
                         "thorough), each with its twin without the unreachable definitions; non-trivial = run with at least one warning line",
                    assumptions=["zsh scripts are written to a file named _cmd so that the file-name notice does not appear",
                                 "the twin grammar is derived by the generator by dropping the definitions it placed out of reach of the call variants"])
    # harmlessness: the script of a grammar equals the script of its twin (MemoCheck over (group) -> script digest)
    recs = [{"id": c["id"], "key": c["grp"], "val": c["_obs"].get("script_hash", "") if c["_obs"].get("exit") == 0 else "exit%s" % c["_obs"].get("exit")}
            for c in cases]
    res, mism, nval = memo.run(recs)
    v = core.Verdict("C15")
    byid = {c["id"]: c for c in cases}
    for d in mism:
        c = byid[d["id"]]
        v.mismatch({"kind": "output_differs", "which": c["which"]},
                   "%r [%s]: script differs from the script of the same grammar with/without the definitions no call variant reaches" % (c["usage"], c["shell"]),
                   {"usage": c["usage"], "shell": c["shell"], "group": c["grp"]})
    if nval < len(recs):
        raise core.ToolError("vacuity: memo model consumed %d of %d records" % (nval, len(recs)))
    rc2 = v.finish()
    ev = json.load(open(core.EVIDENCE + "/C15.json"))
    ev["coverage"]["states"] += res.distinct
    ev["coverage"]["transitions"] += res.generated
    ev["coverage"]["traces_validated_against_impl"] += nval
    ev["coverage"]["exhaustive"] = True
    ev["coverage"]["exhaustive_structures"] = nexh
    ev["coverage"]["twin_comparisons"] = nval
    ev["violations"] += len(v.violations)
    ev["wall_s"] = round(time.time() - t0, 2)
    json.dump(ev, open(core.EVIDENCE + "/C15.json", "w"), indent=1, sort_keys=True)
    return 1 if (rc or rc2) else 0
