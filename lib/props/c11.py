# C11 - the definition chosen for a nonterminal is the one for the target shell.
# Exhaustive: names {X, PATH, DIRECTORY} x all subsets of {plain, @bash, @fish, @zsh, @pwsh} command
# definitions (pairwise distinct texts) x reference position x 4 target shells = 1536 cases; thorough adds
# random combinations of several names.  Decided by TLC: Equiv (labelled language incl. command texts and
# command/compadd kind) and ChosenCheck (texts in the emitted script, metamorphic group equality).
import json, time, random, itertools
import core, corpus, equiv, gen, scripts
from gen import L, R, C

BUILTIN = {
    ("PATH", "bash"): 'compgen -A file -- "$1"', ("PATH", "fish"): '__fish_complete_path "$argv[1]"',
    ("PATH", "zsh"): "_path_files", ("PATH", "pwsh"): "Get-ChildItem | ForEach-Object { $_.Name }",
    ("DIRECTORY", "bash"): 'compgen -A directory -- "$1"', ("DIRECTORY", "fish"): '__fish_complete_directories "$argv[1]"',
    ("DIRECTORY", "zsh"): "_path_files -/", ("DIRECTORY", "pwsh"): "Get-ChildItem -Directory | ForEach-Object { $_.Name }",
}
KINDS = ["plain", "bash", "fish", "zsh", "pwsh"]
POSITIONS = ["top", "word", "via", "fb"]


def grammar_for(name, subset, pos):
    defs = []
    for k in subset:
        defs.append((name, "" if k == "plain" else k, C("mark_%s_%s" % (k, name))))
    ref = R(name)
    if pos == "top":
        tree = ("seq", [L("first"), ref, L("last")])
    elif pos == "word":
        tree = ("seq", [("sub", [L("--opt="), ref]), L("last")])
    elif pos == "via":
        tree = ("seq", [L("first"), R("VIA")])
        defs.append(("VIA", "", ("seq", [ref, L("last")])))
    else:
        tree = ("seq", [("fb", [L("first"), ref]), L("last")])
    return [tree], defs


def build_corpus(tier, seed):
    cases = []
    for name in ["X", "PATH", "DIRECTORY"]:
        for r in range(len(KINDS) + 1):
            for subset in itertools.combinations(KINDS, r):
                for pos in POSITIONS:
                    for sh in gen.SHELLS:
                        variants, defs = grammar_for(name, subset, pos)
                        c = gen.case(variants, defs, shell=sh)
                        grp = "%s|%s|%s|%s|%s" % (name, pos, sh, "plain" in subset, sh in subset)
                        corpus.finish(c, len(cases) + 1, origin="exhaustive", grp=grp,
                                      texts=["mark_%s_%s" % (k, name) for k in KINDS] + [BUILTIN[(n, sh)] for n in ("PATH", "DIRECTORY")])
                        cases.append(c)
    nexh = len(cases)
    if tier == "thorough":
        rnd = random.Random(seed)
        for i in range(1500):
            names = rnd.sample(["X", "Y", "PATH", "DIRECTORY"], rnd.randint(2, 3))
            defs, items, texts = [], [], []
            keyparts = []
            sh = rnd.choice(gen.SHELLS)
            for nm in names:
                subset = [k for k in KINDS if rnd.random() < 0.4]
                for k in subset:
                    defs.append((nm, "" if k == "plain" else k, C("mark_%s_%s" % (k, nm))))
                texts += ["mark_%s_%s" % (k, nm) for k in KINDS]
                pos = rnd.choice(["top", "word", "fb"])
                keyparts.append((nm, pos, "plain" in subset, sh in subset))
                ref = R(nm)
                items.append(ref if pos == "top" else ("sub", [L("--%s=" % nm.lower()), ref]) if pos == "word" else ("fb", [L("f" + nm.lower()), ref]))
            rnd.shuffle(defs)
            c = gen.case([("seq", items + [L("last")])], defs, shell=sh)
            corpus.finish(c, len(cases) + 1, origin="random", grp="r|%s|%s" % (sh, keyparts),
                          texts=sorted(set(texts)) + [BUILTIN[(n, sh)] for n in ("PATH", "DIRECTORY")])
            cases.append(c)
    return cases, nexh


def run(tier):
    t0 = time.time()
    core.build()
    cases, nexh = build_corpus(tier, core.seed())
    rec = core.record("compile", cases)
    outs = core.emit_many(rec)
    for r, (rc, out, err, to) in zip(rec, outs):
        text = out.decode("utf-8", "replace")
        # drop the signature line (carries the version, not the grammar)
        body = "\n".join(text.split("\n")[1:])
        r["obs"]["sha"] = core.sha(body.encode()) if rc == 0 else "rc%d" % rc
        bodies = set(scripts.command_bodies(text, r["shell"], "cmd").values())
        r["obs"]["markers"] = [{"text": t, "present": t in bodies} for t in r["texts"]]
        if rc != 0 and r["obs"]["verdict"] == "ok":
            r["obs"]["verdict"] = "cli_failed"
    ok = [r for r in rec if r["obs"]["verdict"] == "ok"]
    byid = {r["id"]: r for r in rec}
    v = core.Verdict("C11")
    res_e, mism, validated_e = equiv.run(ok, ["spec-min"], shards=8)
    for (cid, mode), d in sorted(mism.items()):
        r = byid[cid]
        sig = equiv.classify(d)
        sig["check"] = "automaton"
        sig["name_class"] = "builtin_name" if ("<PATH>" in r["usage"] or "<DIRECTORY>" in r["usage"]) and r["origin"] == "exhaustive" else "other"
        sig["has_plain"] = "|True|" in r["grp"] if r["origin"] == "exhaustive" else None
        v.mismatch(sig, "%s [%s] after `%s`: expected %s, automaton has %s" % (
            r["usage"].strip().replace("\n", " "), r["shell"], equiv.fmt_hist(d["hist"]),
            [(x["k"], x["t"]) for x in d["left"]], [(x["k"], x["t"]) for x in d["right"]]),
            {"usage": r["usage"], "shell": r["shell"], "hist": d["hist"]})
    res_c = core.run_tlc_sharded("ChosenCheck.tla", "ChosenCheck.cfg", ok, shards=8, workers=2, prefix="chosen", group_key=lambda c: c["grp"])
    # groups must stay inside one shard: shard by group
    for m in res_c.tagged("MISMATCH"):
        d = json.loads(m[0])
        r = byid[d["id"]]
        if not d["textsok"]:
            sig = {"check": "script_texts", "kind": "command_text",
                   "name_class": "builtin_name" if ("<PATH>" in r["usage"] or "<DIRECTORY>" in r["usage"]) else "other",
                   "extra_builtin": any(t in BUILTIN.values() for t in set(d["observed"]) - set(d["expected"]))}
            v.mismatch(sig, "%s [%s]: script runs %s, chosen definitions are %s" % (
                r["usage"].strip().replace("\n", " "), r["shell"], sorted(d["observed"]), sorted(d["expected"])),
                {"usage": r["usage"], "shell": r["shell"], "expected": d["expected"], "observed": d["observed"]})
        if not d["groupok"]:
            sig = {"check": "foreign_definitions_influence_output", "kind": "output_differs"}
            v.mismatch(sig, "%s [%s]: script differs from case %d which only differs in definitions for other shells" % (
                r["usage"].strip().replace("\n", " "), r["shell"], d["leader"]),
                {"usage": r["usage"], "shell": r["shell"], "other": byid[d["leader"]]["usage"]})
    nval = len(res_c.tagged("VALIDATED"))
    if nval < len(ok) or len(validated_e) < len(ok):
        raise core.ToolError("vacuity: validated %d/%d and %d/%d" % (nval, len(ok), len(validated_e), len(ok)))
    cov = {"states": res_e.distinct + res_c.distinct, "transitions": res_e.generated + res_c.generated,
           "traces_validated_against_impl": nval + len(validated_e),
           "samples": [{"usage": r["usage"], "shell": r["shell"], "markers_present": [m["text"] for m in r["obs"]["markers"] if m["present"]]}
                       for r in ok[:: max(1, len(ok) // 4)][:4]],
           "programs": len(ok), "exhaustive": True, "exhaustive_cases": nexh, "rejected": len(rec) - len(ok),
           "evaluations": nval + len(validated_e), "distinct_nontrivial": len({r["usage"] + r["shell"] for r in ok if r["ast"]["defs"]}),
           "rule": "names {X,PATH,DIRECTORY} x 2^5 subsets of {plain,@bash,@fish,@zsh,@pwsh} x {top, inside a word, through a definition, || branch} x 4 shells; "
                   "non-trivial = at least one definition present",
           "known_findings_hit": sorted(v.known_hits)}
    rc = v.finish()
    core.write_evidence("C11", tier, "model_checking", cov,
                        ["occurrence of a command text in the script is tested on the script text after the signature line",
                         "fish/zsh/pwsh scripts are not executed (no interpreters in the sandbox)"],
                        time.time() - t0, len(v.violations))
    return rc
