# C05 - grammar text parses to the tree its syntax prescribes (print/parse round trip).
# Inputs: (1) every normal-form tree up to a node bound, printed with minimal parentheses; (2) random deeper grammars with
# definitions, printed under TLC-chosen layouts (Syntax.tla: every single deviating blank/comment/form feed, and random
# multi-deviation layouts), `=`/`::=`, optional final `;`, redundant parentheses, permuted statements; (3) literal spellings
# enumerated by TLC (Spell.tla: regular / reserved-escaped / raw-or-escaped dots x what follows); (4) description strings.
# Observed: Grammar::parse through the recorder.  Decided by TLC (TreeCheck.tla): printed tree = parsed tree.
import itertools, json, random, time
import core, corpus, gen, layout
from gen import L, R, C

REG = ["a", "-", "9", "=", "#", "~", "@", "_", "+", ",", "/", ":", "%", "!", "?", "*", "&", "'", "$", "^", "`", "Z"]
RES = list('()[]<>|;"{}\\')
DESCR_ALPHABET = ["a", " ", '"', "\\", "#", ";", "é", "$", "(", "<"]


def mk(cases, variants, defs, origin, blanks=None, assign="=", semi=True, order=None, wrap=None, expect="same", **extra):
    toks, ast = gen.statements_tokens(variants, defs, assign=assign, semi=semi, order=order, wrap=wrap)
    layout.annotate(toks)
    text = layout.render(toks, blanks) if blanks is not None else gen.layout_default(toks)
    nv = len(variants)
    c = {"id": len(cases) + 1, "usage": text, "shell": "bash", "ast": ast, "origin": origin, "expect": expect}
    if order is not None:
        c["order"] = [(i + 1) if w == "v" else (nv + i + 1) for (w, i) in order]
    c.update(extra)
    cases.append(c)
    return toks


def spell_cases(cases, maxlen):
    res = core.run_tlc("Spell.tla", "Spell.cfg", env={"SPELL_MAXLEN": str(maxlen)}, workers=2, tag="spell")
    n = 0
    for r in res.tagged("REPLAY"):
        d = json.loads(r[0])
        text, spelled = "", ""
        for i, (cl, sp) in enumerate(zip(d["cls"], d["sp"])):
            ch = "." if cl == "d" else (RES[(i + n) % len(RES)] if cl == "q" else ("a" if i == 0 else REG[(i + n) % len(REG)]))
            text += ch
            spelled += ("\\" + ch) if sp == "esc" else ch
        n += 1
        lit = L(text)
        if d["ctx"] == "end":
            tree = lit
            src = "cmd %s;\n" % spelled
        elif d["ctx"] == "space":
            tree = ("seq", [lit, L("y")])
            src = "cmd %s y;\n" % spelled
        elif d["ctx"] == "many":
            tree = ("many", lit)
            src = "cmd %s...;\n" % spelled
        else:
            tree = ("sub", [lit, ("alt", [L("y"), L("z")])])
            src = "cmd %s(y | z);\n" % spelled
        toks, ast = gen.statements_tokens([("cmd", tree)], [])
        cases.append({"id": len(cases) + 1, "usage": src, "shell": "bash", "ast": ast, "origin": "spell", "expect": d["expect"],
                      "spell": {"cls": "".join(d["cls"]), "sp": d["sp"], "ctx": d["ctx"]}})
    return res, n


def build_corpus(tier, seed):
    rnd = random.Random(seed)
    cases = []
    # (1) exhaustive trees
    nmax = 4 if tier == "quick" else 5
    leaves = [L("a"), L("ab", "dl"), R("X"), C("echo c")]
    memo = {}
    ntrees = 0
    trees = []
    for n in range(1, nmax + 1):
        for t in gen.enum_trees(n, leaves, ["seq", "alt", "fb", "sub", "opt", "many", "dd"], memo=memo):
            if gen.normal(t):
                trees.append(t)
    ntrees = len(trees)
    if tier == "thorough" and len(trees) > 25000:
        small = [t for t in trees if gen.size(t) < nmax]
        trees = small + rnd.sample([t for t in trees if gen.size(t) == nmax], 25000 - len(small))
    for t in trees:
        mk(cases, [("cmd", t)], [], "exhaustive")
    nexh_trees = len(cases)
    # operator precedence: every tree with <= 6 nodes over two literals and the operators || | sequence [ ] ...
    memo2 = {}
    for n in range(5, 7):
        for t in gen.enum_trees(n, [L("a"), L("b")], ["seq", "alt", "fb", "opt", "many"], memo=memo2, max_arity=2):
            if gen.normal(t) and any(x[0] == "fb" for x in gen.walk(t)):
                mk(cases, [("cmd", t)], [], "precedence")
    # inside a word: every expression with <= 5 (6) nodes over {x, <R>} after a literal prefix (nested juxtaposition inside | and ||:
    # `--k=(x<R> || x)` has 5 nodes and is the smallest tree in which the parser has to dissolve a nested word under `||`)
    memo3 = {}
    for n in range(2, 6 if tier == "quick" else 7):
        for t in gen.enum_trees(n, [L("x"), R("R")], ["seq", "alt", "fb", "opt", "many"], insub=True, memo=memo3, max_arity=2):
            w = ("sub", [L("--k="), t])
            if gen.normal(w):
                mk(cases, [("cmd", w)], [], "within_word")
    nexh = len(cases)
    # (2) random grammars under layouts and recipes
    nrand = 60 if tier == "quick" else 500
    lay_cases = []
    made = 0
    while made < nrand:
        variants, defs = corpus.random_grammar(rnd, depth=rnd.choice([3, 4, 5]), with_probes=False, p_descr=0.3)
        if not all(gen.normal(v) for v in variants) or not all(gen.normal(d[2]) for d in defs):
            continue
        made += 1
        vs = [("cmd", v) for v in variants]
        # recipe: assignment spelling per definition, final semicolon, statement order, redundant parentheses
        order = [("v", i) for i in range(len(vs))] + [("d", i) for i in range(len(defs))]
        if rnd.random() < 0.7:
            rnd.shuffle(order)
        assign = [rnd.choice(["=", "::="]) for _ in range(max(1, len(defs)))]
        semi = rnd.random() < 0.6
        _, ast0 = gen.statements_tokens(vs, defs)
        nn = len(ast0["nodes"])
        wrap = set(rnd.sample(range(1, nn + 1), min(nn, rnd.randint(0, 3)))) if rnd.random() < 0.6 else set()
        toks = mk(cases, vs, defs, "random", assign=assign, semi=semi, order=order, wrap=wrap)
        lay_cases.append({"id": cases[-1]["id"], "toks": layout.tok_records(toks), "_args": (vs, defs, assign, semi, order, wrap)})
    singles, res1 = layout.generate(lay_cases, mode="singles", limit_per_case=20 if tier == "quick" else 60, rnd=rnd)
    multi, res2 = layout.generate(lay_cases, mode="sim", maxdev=8, simulate=len(lay_cases) * (3 if tier == "quick" else 10))
    nlay = 0
    for lc in lay_cases:
        vs, defs, assign, semi, order, wrap = lc["_args"]
        for bl in singles.get(lc["id"], []) + multi.get(lc["id"], []):
            mk(cases, vs, defs, "layout", blanks=bl, assign=assign, semi=semi, order=order, wrap=wrap, layout_of=lc["id"], blanks_ids=bl)
            nlay += 1
    # (3) literal spellings
    res3, nspell = spell_cases(cases, 4 if tier == "quick" else 6)
    # (4) descriptions
    dl = 3 if tier == "quick" else 4
    ndescr = 0
    for n in range(0, dl + 1):
        for tup in itertools.product(DESCR_ALPHABET, repeat=n):
            s = "".join(tup)
            where = ndescr % 3
            if where == 0:
                tree = ("seq", [L("x", s), L("y")])
            elif where == 1:
                tree = ("dd", ("alt", [L("x"), L("y")]), s)
            else:
                tree = ("seq", [("sub", [L("--o="), ("alt", [L("p"), L("q")])]), L("z", s)])
            mk(cases, [("cmd", tree)], [], "descr")
            ndescr += 1
    stats = {"exhaustive_trees": nexh_trees, "exhaustive_trees_total": ntrees, "precedence_and_within_word_trees": nexh - nexh_trees, "random_grammars": nrand, "layouts": nlay, "spellings": nspell, "descriptions": ndescr,
             "tlc_generation_states": res1.distinct + res2.distinct + res3.distinct, "tlc_generation_transitions": res1.generated + res2.generated + res3.generated}
    return cases, stats


def run(tier):
    t0 = time.time()
    core.build(need_bin=False)
    seed = core.seed()
    cases, stats = build_corpus(tier, seed)
    rec = core.record("parse", [{"id": c["id"], "usage": c["usage"], "shell": "bash"} for c in cases])
    for c, r in zip(cases, rec):
        o = r["obs"]
        if o.get("verdict") == "crash" or o.get("panic"):
            o = {"ok": False, "statements": [], "crashed": True}
        c["obs"] = {"ok": bool(o.get("ok")), "statements": o.get("statements", []), "crashed": bool(o.get("crashed"))}
    strip = [{k: v for k, v in c.items() if k in ("id", "ast", "obs", "order", "expect")} for c in cases]
    res = core.run_tlc_sharded("TreeCheck.tla", "TreeCheck.cfg", strip, shards=12, workers=2, prefix="tree", timeout=3000)
    byid = {c["id"]: c for c in cases}
    v = core.Verdict("C05")
    for m in res.tagged("MISMATCH"):
        d = json.loads(m[0])
        c = byid[d["id"]]
        probs = sorted(d["problems"], key=lambda p: (len(p["at"]), p["at"]))
        first = probs[0]
        sig = {"kind": "tree" if c["origin"] not in ("spell", "descr") else ("lexer" if c["origin"] == "spell" else "description"),
               "what": first["what"], "origin": c["origin"]}
        if c["origin"] == "spell":
            sig["ctx"] = c["spell"]["ctx"]
            sig["classes"] = "".join(sorted(set(c["spell"]["cls"])))
        if first["what"] in ("operator", "arity"):
            sig["printed"], sig["parsed"] = first["printed"], first["parsed"]
        v.mismatch(sig, "%r: %s at %s (printed `%s`, parsed `%s`)%s" % (c["usage"], first["what"], first["at"], first["printed"], first["parsed"],
                                                                       " [layout of case %s]" % c.get("layout_of") if c.get("layout_of") else ""),
                   {"usage": c["usage"], "problems": probs, "ast": c["ast"]})
    nval = len(res.tagged("VALIDATED"))
    if nval < len(cases):
        raise core.ToolError("vacuity: %d of %d validated" % (nval, len(cases)))
    if sum(1 for c in cases if c["obs"]["ok"]) < len(cases) // 2:
        raise core.ToolError("vacuity: most generated files do not parse (%d of %d)" % (sum(1 for c in cases if c["obs"]["ok"]), len(cases)))
    samples = [{"usage": c["usage"], "origin": c["origin"], "expect": c["expect"], "parsed": c["obs"]["ok"]}
               for c in (cases[7], cases[stats["exhaustive_trees"] + 1], [x for x in cases if x["origin"] == "layout"][3],
                         [x for x in cases if x["origin"] == "spell"][11], [x for x in cases if x["origin"] == "descr"][40])]
    cov = {"states": res.distinct + stats["tlc_generation_states"], "transitions": res.generated + stats["tlc_generation_transitions"],
           "traces_validated_against_impl": nval, "samples": samples, "programs": len({c["usage"] for c in cases}), "evaluations": len(cases),
           "distinct_nontrivial": len({c["usage"] for c in cases if len(c["ast"]["nodes"]) >= 3 or c["origin"] in ("spell", "descr")}),
           "exhaustive": stats["exhaustive_trees"] == stats["exhaustive_trees_total"], "parts": stats,
           "rule": "every normal-form tree with <= N nodes (N=4 quick, 5 thorough sampled) over {a, ab \"dl\", <X>, {{{cmd}}}} and all operators; random "
                   "grammars with definitions under TLC-enumerated layouts (each single deviating boundary from a 10-entry blank menu incl. comments, form feed, "
                   "tabs, newlines; random layouts with up to 8 deviations), `=`/`::=`, optional final `;`, redundant parentheses, permuted statements; all "
                   "literal class strings up to length 4 (6) with all dot spellings x 4 following contexts; all description strings up to length 3 (4) over "
                   "a 10-character alphabet incl. quote, backslash, #, ;, non-ASCII; non-trivial = tree with >= 3 nodes or a lexer/description case",
           "known_findings_hit": sorted(v.known_hits)}
    rc = v.finish()
    core.write_evidence("C05", tier, "model_checking", cov,
                        ["the parsed tree is observed through Grammar::parse and the feature-gated accessors; spans are ignored",
                         "trees are generated in the parser's normal form (no within-word node inside a within-word node, no single-child sequence, "
                         "descriptions only in printable positions)"],
                        time.time() - t0, len(v.violations))
    return rc
