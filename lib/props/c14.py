# C14 - layout and statement order do not change the output.
# Per grammar (seeded random, with definitions, within-word expressions, descriptions, commands) and shell: the canonical file and
# re-laid-out files - TLC-chosen blanks at every token boundary (LayoutGen.tla: single deviations and random multi-deviation
# layouts over spaces, tabs, newlines, comments, form feed), `::=` for `=`, final `;` dropped, redundant parentheses around
# items outside words (also between a literal and its description: `(lit) "descr"`), definitions permuted (also moved between the
# call variants, whose own order is kept).
# Observed: digest of the script (version line removed).  Decided by TLC: MemoCheck.tla keyed by (abstract grammar, shell).
import json, random, time
import core, corpus, gen, layout, cli, memo


def variants_of(rnd, vs, defs, k):
    """k recipes: (assign, semi, order, wrap)"""
    _, ast0 = gen.statements_tokens(vs, defs)
    nn = len(ast0["nodes"])
    out = []
    for j in range(k):
        didx = list(range(len(defs)))
        rnd.shuffle(didx)
        order = [("v", i) for i in range(len(vs))]
        if j % 2 == 0:
            order += [("d", i) for i in didx]
        else:
            for i in didx:
                order.insert(rnd.randint(0, len(order)), ("d", i))
        assign = [rnd.choice(["=", "::="]) for _ in range(max(1, len(defs)))]
        semi = rnd.random() < 0.5
        wrap = set(rnd.sample(range(1, nn + 1), min(nn, rnd.randint(0, 4))))
        # described literals written `(lit) "descr"`: the parentheses are redundant, the description then reaches the literal from the group
        # (not directly under `...`: `(lit) "descr"...` is not in the syntax, a group's description cannot be followed by `...`)
        under_many = {c for n in ast0["nodes"] if n["k"] == "many" for c in n["c"]}
        described = [i + 1 for i, n in enumerate(ast0["nodes"]) if n["k"] == "lit" and n["hd"] and (i + 1) not in under_many]
        inner = set(x for x in described if rnd.random() < 0.4)
        out.append((assign, semi, order, wrap - inner, inner))
    return out


def described_groups():
    """a description after a group that contains a literal with a description of its own followed by literals without one
    (the group's description goes to the first literal that has none), also under [ ], `|` and `||` and next to another group"""
    L = gen.L
    out = []
    out.append(("dd", ("seq", [L("b", "short form"), L("build")]), "Compile the current package"))
    out.append(("dd", ("seq", [L("b", "short form"), L("build"), L("third")]), "Compile"))
    out.append(("dd", ("seq", [("opt", L("b", "short form")), L("build")]), "Compile"))
    out.append(("dd", ("seq", [("alt", [L("b", "short form"), L("c")]), L("build")]), "Compile"))
    out.append(("seq", [("dd", ("seq", [L("a", "first"), L("b")]), "group one"), ("dd", ("seq", [L("c"), L("d", "fourth")]), "group two"), L("e")]))
    out.append(("alt", [("dd", ("seq", [L("run", "r"), L("now")]), "when"), L("test", "t"), ("dd", ("seq", [L("x"), L("y", "why")]), "ex")]))
    return [([("cmd", t)], []) for t in out]


def build_corpus(tier, seed):
    rnd = random.Random(seed)
    ngram = 40 if tier == "quick" else 400
    protos = []
    while len(protos) < ngram:
        variants, defs = corpus.random_grammar(rnd, depth=rnd.choice([3, 4]), with_probes=False, p_descr=0.25)
        if not corpus.clean(variants, defs) or corpus.leaves_count(variants, defs) > 40:
            continue
        protos.append(([("cmd", v) for v in variants], defs))
    # acyclic definition graphs with shared descendants (3-6 definitions): the order of definitions must not matter
    from props import c08
    for variants, defs in c08.dag_grammars(rnd, 12 if tier == "quick" else 120):
        protos.append(([("cmd", v) for v in variants], defs))
    ndag = len(protos)
    protos += described_groups()
    cases, lay_in = [], []
    for g, (vs, defs) in enumerate(protos):
        recipes = [("=", True, None, None, None)] + variants_of(rnd, vs, defs, (2 if tier == "quick" else 5) + (8 if len(defs) >= 3 and g >= ngram else 0) + (6 if g >= ndag else 0))
        for r, (assign, semi, order, wrap, inner) in enumerate(recipes):
            toks, ast = gen.statements_tokens(vs, defs, assign=assign, semi=semi, order=order, wrap=wrap, wrap_inner=inner)
            layout.annotate(toks)
            pid = len(lay_in) + 1
            lay_in.append({"id": pid, "toks": layout.tok_records(toks), "_toks": toks, "g": g, "recipe": r})
    singles, res1 = layout.generate(lay_in, mode="singles", limit_per_case=3 if tier == "quick" else 10, rnd=rnd)
    multi, res2 = layout.generate(lay_in, mode="sim", maxdev=12, simulate=len(lay_in) * (1 if tier == "quick" else 4))
    for p in lay_in:
        for bl in [layout.default_ids(p["_toks"])] + singles.get(p["id"], []) + multi.get(p["id"], []):
            text = layout.render(p["_toks"], bl)
            for sh in gen.SHELLS:
                cases.append({"id": len(cases) + 1, "usage": text, "shell": sh, "g": p["g"], "recipe": p["recipe"],
                              "opt": {"dest": "file", "destname": "_cmd" if sh == "zsh" else "out.script"}})
    # two entry points sharing a definition, one of them with a second, nested dependency; names drawn per grammar (the order in
    # which complgen walks its name-keyed hash tables depends on the names); definitions permuted, canonical layout, one shell
    L, R = gen.L, gen.R
    nshared = 40 if tier == "quick" else 400
    for k in range(nshared):
        names = []
        while len(names) < 5:
            nm = rnd.choice("abcdefghijklmnopqrstuvwxyzABCDEFGHIJKLMNOPQRSTUVWXYZ") + "".join(rnd.choice("abcdefghijklmnopqrstuvwxyz0123456789-_") for _ in range(rnd.randint(1, 8)))
            if nm not in names and not nm.endswith("-") and nm.upper() not in ("PATH", "DIRECTORY"):
                names.append(nm)
        r1, r2, b, e, f = names
        vs = [("cmd", ("alt", [("seq", [L("move"), R(r1)]), ("seq", [L("start"), R(r2)])]))]
        defs = [(r1, "", ("seq", [R(b), ("opt", R(e))])), (r2, "", ("seq", [("opt", L("-r")), R(b)])), (e, "", ("seq", [L("--jobs"), R(f)])),
                (f, "", ("alt", [L("fast"), L("slow")])), (b, "", ("alt", [L("x"), L("y")]))]
        g = len(protos) + k
        sh = rnd.choice(gen.SHELLS)
        for r in range(6):
            order = [("v", 0)] + [("d", i) for i in (range(5) if r == 0 else rnd.sample(range(5), 5))]
            toks, ast = gen.statements_tokens(vs, defs, order=order)
            layout.annotate(toks)
            cases.append({"id": len(cases) + 1, "usage": layout.render(toks, layout.default_ids(toks)), "shell": sh, "g": g, "recipe": r,
                          "opt": {"dest": "file", "destname": "_cmd" if sh == "zsh" else "out.script"}})
    return cases, len(protos) + nshared, res1, res2


def run(tier):
    t0 = time.time()
    core.build()
    seed = core.seed()
    cases, ngram, res1, res2 = build_corpus(tier, seed)
    obs, stats = cli.observe(cases, sample=40 if tier == "quick" else 200, seed=seed, alarming=lambda o: o.get("exit") not in (0, 1))
    recs = []
    for c, o in zip(cases, obs):
        c["_obs"] = o
        recs.append({"id": c["id"], "key": "g%d|%s" % (c["g"], c["shell"]), "val": o.get("script_hash", "") if o.get("exit") == 0 else "exit%s" % o.get("exit")})
    res, mism, nval = memo.run(recs, shards=12)
    byid = {c["id"]: c for c in cases}
    first = {}
    for c in cases:
        first.setdefault((c["g"], c["shell"]), c)
    v = core.Verdict("C14")
    for d in mism:
        c = byid[d["id"]]
        f = first[(c["g"], c["shell"])]
        sig = {"kind": "output_differs", "recipe_changed": c["recipe"] != f["recipe"], "status": "both_ok" if d["val"][:4] != "exit" and d["first"][:4] != "exit" else "verdict_differs"}
        v.mismatch(sig, "[%s] %r compiles to a different script than %r (%s vs %s)" % (c["shell"], c["usage"], f["usage"], d["val"], d["first"]),
                   {"shell": c["shell"], "usage": c["usage"], "reference": f["usage"], "digests": [d["val"], d["first"]]})
    if nval < len(recs):
        raise core.ToolError("vacuity: memo model consumed %d of %d records" % (nval, len(recs)))
    nok = sum(1 for c in cases if c["_obs"].get("exit") == 0)
    if nok < len(cases) * 0.8:
        raise core.ToolError("vacuity: only %d of %d files compile" % (nok, len(cases)))
    groups = {}
    for c in cases:
        groups.setdefault((c["g"], c["shell"]), set()).add(c["usage"])
    samples = [{"shell": c["shell"], "usage": c["usage"], "canonical": first[(c["g"], c["shell"])]["usage"]} for c in cases[9:: max(1, len(cases) // 4)][:4]]
    cov = {"states": res.distinct + res1.distinct + res2.distinct, "transitions": res.generated + res1.generated + res2.generated,
           "traces_validated_against_impl": nval, "samples": samples, "programs": ngram, "evaluations": len(cases),
           "distinct_nontrivial": sum(len(x) - 1 for x in groups.values()), "groups": len(groups), "front_end": stats,
           "rule": "%d seeded grammars x 4 shells; per grammar the canonical file, recipes (`::=`, final `;` dropped, redundant parentheses - also between a literal and its description -, permuted / moved "
                   "definitions) and TLC-chosen layouts of each; non-trivial = distinct re-laid-out file texts beyond the first of a (grammar, shell) group" % ngram,
           "known_findings_hit": sorted(v.known_hits)}
    rc = v.finish()
    core.write_evidence("C14", tier, "model_checking", cov,
                        ["the line of the script that carries complgen's version is not compared",
                         "call variants keep their relative order; definitions may move anywhere among the statements",
                         "runs go through main.rs compiled into the recorder; a random sample is re-run with the real binary"],
                        time.time() - t0, len(v.violations))
    return rc
