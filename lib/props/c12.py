# C12 - inside a word, overlapping alternatives are told apart correctly.
# Corpus: within-word alternation over every non-empty subset of the prefix-chain universe
# {a, ab, abc, abcd, b, bc, abd} (127 sets) x prefix literal {--opt=, -o}, alternation last in its word,
# followed by a further word.  Same replay/validation flow as C01 (the word-level meaning is an exact
# dynamic programme over token boundaries, so prefix-overlapping values have a well-defined meaning).
import itertools, random
import core, corpus, bashdrv, gen
from gen import L
from props import c01

UNIVERSE = ["a", "ab", "abc", "abcd", "b", "bc", "abd"]


def build_corpus(tier, seed):
    rnd = random.Random(seed)
    sets = []
    for r in range(1, len(UNIVERSE) + 1):
        sets += [list(s) for s in itertools.combinations(UNIVERSE, r)]
    if tier == "quick":
        small = [s for s in sets if len(s) <= 2]
        rest = [s for s in sets if len(s) > 2]
        sets = small + rnd.sample(rest, 40)
    cases = []
    for s in sets:
        for pre in ("--opt=", "-o"):
            if tier == "quick" and pre == "-o" and len(s) > 2 and rnd.random() < 0.6:
                continue
            vals = list(s)
            rnd.shuffle(vals)
            alt = ("alt", [L(x) for x in vals]) if len(vals) > 1 else L(vals[0])
            if len(vals) == 1:
                tree = ("seq", [("sub", [L(pre), ("opt", alt)]), L("foo")])
            else:
                tree = ("seq", [("sub", [L(pre), alt]), L("foo")])
            c = gen.case([tree], [], shell="bash")
            cases.append(corpus.annotate_bash(corpus.finish(c, len(cases) + 1, origin="exhaustive", values=sorted(s)), bashdrv.PROBE_CLASSES))
    if tier == "thorough":
        for i in range(150):
            n = rnd.randint(2, 5)
            vals = set()
            while len(vals) < n:
                vals.add("".join(rnd.choice("xyz") for _ in range(rnd.randint(1, 5))))
            vals = sorted(vals)
            tree = ("seq", [("sub", [L("--k="), ("alt", [L(x) for x in vals])]), ("alt", [L("foo"), L("bar")])])
            c = gen.case([tree], [], shell="bash")
            cases.append(corpus.annotate_bash(corpus.finish(c, len(cases) + 1, origin="random", values=vals), bashdrv.PROBE_CLASSES))
    return cases


IN_SCOPE = {"literal", "word_value", "word_value_with_longer_sibling"}


def scope(d, kind):
    """C12 speaks about values typed in full (as earlier words) and partially typed values (at the cursor);
    words that leave the within-word expression unfinished or are foreign belong to C01"""
    return all(c in IN_SCOPE for c in d["classes"])


def run(tier):
    core.build()
    seed = core.seed()
    cases = build_corpus(tier, seed)
    return c01.run_flow("C12", cases, (24 if tier == "quick" else 60, 8), ("rc", "reply"), tier, seed, depth=2, rich=True, scope=scope, vm_budget=150 if tier == "quick" else 1500,
                        rule="within-word alternation over subsets of the prefix-chain universe {a,ab,abc,abcd,b,bc,abd} (all 127 in thorough, all of size <= 2 plus "
                             "a seeded sample in quick) x prefix literal {--opt=, -o}, followed by a further word; every value and every prefix of it as the typed "
                             "word, every value as an earlier word; thorough adds random value sets over {x,y,z};")
