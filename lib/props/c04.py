# C04 - every emitted script (bash/fish/zsh/pwsh) embeds exactly the compiled automaton.
# The script text written by the binary is read back by lib/readers.py (a table parser per shell that applies that shell's
# index base and double-quote rules and follows the within-word table sharing); TLC decides, by product exploration
# (Equiv.tla, mode min-script), that the automaton read back and the recorded minimised automaton have the same labelled
# language (literal text, description, `||` level, command body, within-word automata through the flattened encoding), and
# ScriptCheck.tla decides registration, command bodies, and that the reader met nothing it could not account for.
import json, random, time
import core, corpus, gen, equiv, readers
from gen import L, R, C


def shapes(rnd):
    """several within-word expressions of equal and unequal shape, descriptions, commands, levels"""
    w = lambda pre, vals, d=None: ("sub", [L(pre), ("alt", [L(v, d) if i == 0 and d else L(v) for i, v in enumerate(vals)])])
    out = []
    out.append([("alt", [w("--x=", ["a", "b"]), w("--y=", ["c", "d"]), w("--z=", ["e", "f"])])])
    out.append([("seq", [("alt", [w("--x=", ["a", "b"]), w("--y=", ["c", "d", "e"])]), L("end", "the end")])])
    out.append([("many", ("alt", [w("-a", ["1", "2"]), w("-b", ["3", "4"]), ("sub", [L("-c"), C("echo c")]), ("sub", [L("-d"), R("UNDEF")])]))])
    out.append([("seq", [("fb", [w("--p=", ["u", "v"]), w("--q=", ["w", "x"]), C("echo fallback")]), ("opt", L("tail", "t"))])])
    out.append([("alt", [("sub", [L("k="), ("fb", [L("1"), L("2")])]), ("sub", [L("m="), ("fb", [L("3"), L("4")])]), ("sub", [L("n="), ("alt", [L("5"), L("6")])])])])
    out.append([("seq", [("alt", [w("--x=", ["a", "b"], "dx"), w("--y=", ["c", "d"], "dy")]), ("alt", [L("p", "dp"), L("q")]), C("echo z")])])
    out.append([("seq", [L("first"), ("sub", [L("--o="), ("alt", [L("a"), ("seq", [L("b"), ("opt", L("c"))])])]), ("sub", [L("--r="), ("alt", [L("d"), ("seq", [L("e"), ("opt", L("f"))])])])])])
    out.append([("seq", [R("PATH"), R("DIRECTORY"), ("sub", [L("--f="), R("PATH")])])])
    # same-shaped within-word expressions whose `||` levels sit at different literal indexes (literals are listed by decreasing
    # length and text inside each expression): a shared table set must not be used for them
    fbw = lambda pre, vals: ("sub", [L(pre), ("fb", [L(v) for v in vals])])
    out.append([("alt", [fbw("--a=", ["foo", "bar"]), fbw("--b=", ["baz", "qux"])])])
    out.append([("alt", [fbw("--a=", ["foo", "ba"]), fbw("--b=", ["ba", "foo"]), fbw("--c=", ["x", "yy", "zzz"]), fbw("--d=", ["zzz", "x", "yy"])])])
    out.append([("seq", [("alt", [("sub", [L("-p"), ("alt", [("fb", [L("1"), L("22")]), L("333")])]), ("sub", [L("-q"), ("alt", [("fb", [L("22"), L("1")]), L("333")])])]), L("z")])])
    # the same literal text with two different descriptions, expected from different states
    out.append([("alt", [("seq", [L("a"), L("foo", "one")]), ("seq", [L("b"), L("foo", "two")])])])
    out.append([("seq", [("alt", [("seq", [L("x"), ("sub", [L("--k="), ("alt", [L("v", "first"), L("w")])])]), ("seq", [L("y"), ("sub", [L("--k="), ("alt", [L("v", "second"), L("w")])])])]), L("end")])])
    # a command inside a word and no command at top level (and the converse)
    out.append([("seq", [("sub", [L("--user="), C("echo alice")]), L("done")])])
    out.append([("seq", [("sub", [L("--k="), ("alt", [L("a"), L("b")])]), C("echo top")])])
    # two within-word expressions over the same set of items in a different arrangement (key=value against value=key): same
    # automaton shape index for index, different literals per index
    kv = lambda ks, vs: ("sub", [("alt", [L(k) for k in ks]), L("="), ("alt", [L(v) for v in vs])])
    out.append([("alt", [("seq", [kv(["l", "r"], ["0", "1"]), L("foo")]), ("seq", [kv(["0", "1"], ["l", "r"]), L("bar")])])])
    out.append([("seq", [("alt", [("sub", [L("-a"), ("alt", [L("x"), L("y")])]), ("sub", [("alt", [L("x"), L("y")]), L("-a")])]), L("end")])])
    out.append([("alt", [("seq", [L("p"), ("sub", [("alt", [L("u"), L("v")]), ("alt", [L("1"), L("2")])])]), ("seq", [L("q"), ("sub", [("alt", [L("1"), L("2")]), ("alt", [L("u"), L("v")])])])])])
    # characters that the double-quote rules of the four shells treat differently (backtick, dollar, backslash, quote), in literals,
    # descriptions and inside a word: the tables are read back by each shell's own rules
    out.append([("alt", [("seq", [L("a`b", "use `x` $y \"z\" \\ here"), L("c$d")]), L("e\\f"), L("g\"h", "it's"), ("sub", [L("--q=`"), ("alt", [L("$1"), L("\\n")])])])])
    return out


def build_corpus(tier, seed):
    rnd = random.Random(seed)
    cases = []
    for variants in shapes(rnd):
        for sh in gen.SHELLS:
            defs = [("X", sh, C("echo spec %s" % sh))] if rnd.random() < 0.5 else []
            c = gen.case(variants, defs, shell=sh)
            cases.append(corpus.finish(c, len(cases) + 1, origin="shape"))
    ex, total = corpus.exhaustive(3 if tier == "quick" else 4, start_id=10000, limit=None if tier == "quick" else 3000, rnd=rnd)
    for c in ex:
        for sh in gen.SHELLS:
            x = dict(c)
            x["shell"] = sh
            x["id"] = len(cases) + 1
            cases.append(x)
    rc = corpus.random_cases((120 if tier == "quick" else 3000) * 4, seed + 4, start_id=len(cases) + 1, shells=gen.SHELLS, depth=4, with_probes=False)
    for c in rc:
        c["id"] = len(cases) + 1
        cases.append(c)
    return cases


def c09_region(r):
    """one reading at two fallback levels from one state (the same literal text and description, the same command text, the same
    within-word automaton): the script tables have one (state, item id) entry for what are two automaton symbols.  This is the region
    the property statements hand to C09 (literals, within-word expressions) or leave open (commands)."""
    for d in [r["obs"]["min"]] + r["obs"]["minsubs"]:
        seen = {}
        for t in d["tr"]:
            l = t["l"]
            if l["k"] == "star":
                continue
            key = (t["f"], l["k"], l["t"], l["d"], l["hd"], l["sub"])
            if key in seen and seen[key] != l["lv"]:
                return True
            seen[key] = l["lv"]
    return False


def run(tier):
    t0 = time.time()
    core.build()
    seed = core.seed()
    cases = build_corpus(tier, seed)
    rec = core.record("compile", cases)
    ok = [r for r in rec if r["obs"]["verdict"] == "ok"]
    skipped = [r for r in ok if c09_region(r)]
    ok = [r for r in ok if not c09_region(r)]
    outs = core.emit_many(ok)
    good = []
    v = core.Verdict("C04")
    for r, (rc, out, err, to) in zip(ok, outs):
        if rc != 0:
            continue
        text = out.decode("utf-8", "replace")
        rd = readers.read_script(text, r["shell"], r["obs"]["command"])
        if not rd.get("ok"):
            v.mismatch({"kind": "script_unreadable", "shell": r["shell"]}, "%s [%s]: the script's tables cannot be read: %s" % (
                r["usage"].strip().replace("\n", " "), r["shell"], rd.get("error")), {"usage": r["usage"], "shell": r["shell"], "error": rd.get("error")})
            continue
        o = r["obs"]
        if r["shell"] == "bash":        # bash scripts embed no descriptions
            for d in [o["min"]] + o["minsubs"]:
                for t in d["tr"]:
                    t["l"]["d"], t["l"]["hd"] = "", False
        o["script"] = {"start": rd["main"]["start"], "acc": [], "tr": rd["main"]["tr"]}
        o["scriptsubs"] = [{"start": s["start"], "acc": [], "tr": s["tr"]} for s in rd["subs"]]
        # within-word acceptance is not embedded in any script: inside a word the end-of-word step is compared as "possible anywhere"
        for d in o["minsubs"] + o["scriptsubs"]:
            d["acc"] = sorted({t["f"] for t in d["tr"]} | {t["t"] for t in d["tr"]} | {d["start"]})
        o["registered"] = rd.get("registered", "")
        anomalies = list(rd["main"].get("anomalies", [])) + [a for s in rd["subs"] for a in s.get("anomalies", [])]
        # observations about the program text that reads the tables (not about the embedded data) are notes, not C04's subject
        o["anomalies"] = [a for a in anomalies if not a.startswith("lookup:")]
        r["_lookup_notes"] = [a for a in anomalies if a.startswith("lookup:")]
        bodies = sorted(set(rd.get("commands", {}).values()))
        # empty command bodies are printed as a placeholder (`:` in bash, a comment in pwsh)
        o["bodies"] = bodies
        r["_script"] = text
        good.append(r)
    res, mism, validated = equiv.run(good, ["min-script"], shards=12, coverage=(tier == "thorough"))
    byid = {r["id"]: r for r in rec}
    for (cid, mode), d in sorted(mism.items()):
        r = byid[cid]
        sig = equiv.classify(d)
        sig["shell"] = r["shell"]
        v.mismatch(sig, "%s [%s] after `%s`: automaton-only %s script-only %s" % (
            r["usage"].strip().replace("\n", " "), r["shell"], equiv.fmt_hist(d["hist"]), json.dumps(d["left"]), json.dumps(d["right"])),
            {"usage": r["usage"], "shell": r["shell"], "hist": d["hist"], "automaton_only": d["left"], "script_only": d["right"]})
    strip = [{"id": r["id"], "shell": r["shell"], "ast": r["ast"], "obs": {k: r["obs"][k] for k in ("verdict", "command", "min", "minsubs", "scriptsubs", "registered", "anomalies", "bodies")}} for r in good]
    res2 = core.run_tlc_sharded("ScriptCheck.tla", "ScriptCheck.cfg", strip, shards=8, workers=2, prefix="scriptcheck")
    for m in res2.tagged("MISMATCH"):
        d = json.loads(m[0])
        r = byid[d["id"]]
        for p in sorted(d["problems"]):
            sig = {"kind": p, "shell": r["shell"]}
            if p == "unaccounted_table_content":
                sig["first"] = d["anomalies"][0].split(":")[0][:40] if d["anomalies"] else ""
            v.mismatch(sig, "%s [%s]: %s (registered `%s`; anomalies %s; automaton commands %s, script bodies %s)" % (
                r["usage"].strip().replace("\n", " "), r["shell"], p, d["registered"], d["anomalies"][:3], sorted(d["automatoncmds"]), sorted(d["scriptcmds"])),
                {"usage": r["usage"], "shell": r["shell"], "problem": p, "detail": d})
    nval2 = len(res2.tagged("VALIDATED"))
    if len(validated) < len(good) or nval2 < len(good) or len(good) < len(ok) * 0.9:
        raise core.ToolError("vacuity: %d/%d equivalence, %d/%d script checks, %d of %d scripts readable" % (len(validated), len(good), nval2, len(good), len(good), len(ok)))
    shared = sum(1 for r in good if "_subword_shape_" in r["_script"])
    samples = [{"usage": r["usage"], "shell": r["shell"], "script_bytes": len(r["_script"]), "within_word_automata": len(r["obs"]["minsubs"]),
                "table_transitions_read": len(r["obs"]["script"]["tr"])} for r in good[:: max(1, len(good) // 5)][:5]]
    cov = {"states": res.distinct + res2.distinct, "transitions": res.generated + res2.generated, "traces_validated_against_impl": len(validated) + nval2,
           "samples": samples, "programs": len({r["usage"] for r in good}), "evaluations": len(good), "scripts_with_shared_table_sets": shared,
           "distinct_nontrivial": len({(r["usage"], r["shell"]) for r in good if len(r["obs"]["min"]["tr"]) >= 2}),
           "skipped_c09_region": len(skipped), "program_text_observations": sum(len(r.get("_lookup_notes", [])) for r in good), "per_shell": {sh: sum(1 for r in good if r["shell"] == sh) for sh in gen.SHELLS},
           "rule": "hand-listed shapes (several within-word expressions of equal and unequal shape, descriptions, commands, levels, PATH/DIRECTORY) + every "
                   "tree with <= 3 nodes (4 sampled in thorough) + seeded random grammars, x 4 shells; each script is one complete product exploration "
                   "against the recorded minimised automaton; non-trivial = automaton with >= 2 transitions, distinct by (usage, shell)",
           "known_findings_hit": sorted(v.known_hits)}
    if res.coverage:
        cov["actions"] = {k: n for k, n in res.coverage.items() if k.startswith("Equiv.")}
    rc = v.finish()
    core.write_evidence("C04", tier, "model_checking", cov,
                        ["fish, zsh and pwsh are not installed: their scripts' DATA is read by an independent table reader written from the shells' documented "
                         "array and quoting rules; the program text around the tables is not checked for those shells (bash: C01)",
                         "acceptance is not embedded in any script and is not compared (inside words the end-of-word step is taken to be possible at every inner state on both sides)",
                         "reader notes about how the emitted fish code indexes its tables (`lookup:`) are counted, not judged: fish cannot be executed here",
                         "bash scripts embed no descriptions: descriptions are erased on both sides for bash",
                         "grammars in C09's region (the same literal at two levels from one state) are skipped and counted"],
                        time.time() - t0, len(v.violations))
    return rc
