# C03 - minimisation preserves the language and yields the trim minimal automaton.
# (a) product exploration raw x minimised (Equiv.tla, mode raw-min), main automaton incl. nested ones;
# (b) MinCheck.tla on every recorded minimised automaton: deterministic, trim, singleton Nerode classes,
#     size = number of Nerode classes of the raw automaton.
import json, time, random
import core, corpus, equiv, gen
from gen import L


def build_corpus(tier, seed):
    rnd = random.Random(seed)
    if tier == "quick":
        a, ta = corpus.exhaustive(4)
        b, tb = corpus.exhaustive(6, leaves=[L("a"), L("b")], ops=["seq", "alt", "opt", "many"], defs=[], start_id=len(a) + 1)
        nrand = 300
        complete = True
    else:
        a, ta = corpus.exhaustive(5, limit=12000, rnd=rnd)
        b, tb = corpus.exhaustive(7, leaves=[L("a"), L("b")], ops=["seq", "alt", "opt", "many"], defs=[], start_id=len(a) + 1, limit=12000, rnd=rnd)
        nrand = 3000
        complete = len(a) == ta and len(b) == tb
    rc = corpus.random_cases(nrand, seed, start_id=len(a) + len(b) + 1, shells=("bash", "zsh"), depth=5, max_leaves=64)
    # states that differ only in the `||` levels (or descriptions) of otherwise identical continuations must stay apart; states
    # equivalent to the start state must merge with it
    fam = []
    shapes = [
        [("alt", [("seq", [L("get"), ("fb", [L("fast"), L("slow")])]), ("seq", [L("put"), ("fb", [L("slow"), L("fast")])])])],
        [("sub", [L("--sort="), ("alt", [("seq", [L("asc:"), ("fb", [L("name"), L("size")])]), ("seq", [L("desc:"), ("fb", [L("size"), L("name")])])])])],
        [("alt", [("seq", [L("x"), ("alt", [L("p", "one"), L("q")])]), ("seq", [L("y"), ("alt", [L("p"), L("q", "two")])])])],
        [("seq", [("opt", L("-v")), ("many", ("opt", L("-v")))])],
        [("many", ("opt", gen.R("FILE")))], [("seq", [gen.R("FILE"), ("many", ("opt", gen.R("FILE")))])],
        [("alt", [("opt", ("seq", [L("add"), gen.R("FILE")])), ("many", ("opt", ("seq", [L("add"), gen.R("FILE")])))])],
        [("seq", [("sub", [("opt", L("a,")), ("many", ("opt", L("a,")))]), L("end")])],
        [("alt", [("seq", [L("a"), ("fb", [L("b"), L("c"), L("d")])]), ("seq", [L("e"), ("fb", [L("c"), L("b"), L("d")])]), ("seq", [L("f"), ("fb", [L("b"), L("c"), L("d")])])])],
    ]
    # an automaton on which some refinement orders of the popped-block-is-split case end coarser than the Nerode partition
    bb, cc = L("b"), L("c")
    shapes.append([("seq", [("seq", [("alt", [bb, ("opt", bb), cc]), ("alt", [cc, ("opt", cc)]), bb, bb]), ("opt", ("alt", [bb, bb])), bb])])
    for vs in shapes:
        c = gen.case(vs, [], shell="bash")
        fam.append(corpus.finish(c, len(a) + len(b) + len(rc) + len(fam) + 1, origin="family"))
    return a + b + rc + fam, ta + tb, complete


def numeric(d):
    """raw automaton -> numeric form for Hopcroft.tla (states 1..n, inputs 1..m by input id)"""
    syms, tr = {}, []
    for t in d["tr"]:
        a = syms.setdefault(t["i"], len(syms) + 1)
        tr.append([t["f"], a, t["t"]])
    states = sorted({d["start"]} | {x[0] for x in tr} | {x[2] for x in tr})
    if states != list(range(1, len(states) + 1)):
        return None
    return {"n": len(states), "m": max(len(syms), 1), "tr": sorted(tr), "acc": sorted(d["acc"])}


def mechanism(ok, tier):
    seen, cases = set(), []
    for r in ok:
        for d in [r["obs"]["raw"]] + r["obs"]["rawsubs"]:
            x = numeric(d)
            if x is None or x["n"] > (5 if tier == "quick" else 6) or x["m"] > 4:
                continue
            key = json.dumps(x, sort_keys=True)
            if key in seen:
                continue
            seen.add(key)
            x["id"] = len(cases) + 1
            x["usage"] = r["usage"]
            cases.append(x)
    cases = cases[:150] if tier == "quick" else cases[:1500]
    if not cases:
        return {"automata": 0, "states": 0, "transitions": 0}
    res = core.run_tlc_sharded("Hopcroft.tla", "Hopcroft.cfg", [{k: v for k, v in c.items() if k != "usage"} for c in cases], shards=8, workers=2,
                               prefix="hopcroft", timeout=3000)
    byid = {c["id"]: c for c in cases}
    nonmin = sorted({x[0] for x in res.tagged("NONMINIMAL")})
    unsound = sorted({x[0] for x in res.tagged("UNSOUND")})
    done = {x[0] for x in res.tagged("DONE")}
    for i in (nonmin + unsound)[:5]:
        core.log("MODEL-PREDICTION (design level, not a verdict): some schedule of the modelled algorithm ends %s on the raw automaton of %s" % (
            "non-minimal" if i in nonmin else "with a Nerode class split", byid[i]["usage"].strip()))
    return {"automata": len(cases), "terminated": len(done), "states": res.distinct, "transitions": res.generated,
            "schedules_ending_nonminimal": len(nonmin), "schedules_splitting_a_nerode_class": len(unsound),
            "note": "every work-list / input / block order of do_minimize as modelled in Hopcroft.tla, on the distinct raw automata (<= %d states, <= 4 inputs) of this corpus" % (5 if tier == "quick" else 6)}


def trace_validation(ok, tier, corrupt=None):
    """(d) the steps the instrumented do_minimize reported (hook events, feature `verif`) are a behaviour of Hopcroft.tla"""
    pick = [r for r in ok if len(r["obs"]["raw"]["tr"]) >= 2][:: max(1, len(ok) // (250 if tier == "quick" else 3000))]
    rec = core.record("mintrace", [{"id": r["id"], "usage": r["usage"], "shell": r["shell"]} for r in pick])
    cases = []
    for r in rec:
        o = r["obs"]
        if o.get("verdict") != "ok":
            continue
        x = numeric(o["raw"])
        if x is None or x["n"] > 12:
            continue
        x["id"] = r["id"]
        x["events"] = o["events"]
        cases.append(x)
    if corrupt:
        corrupt(cases)
    if not cases:
        return {"traces": 0}
    res = core.run_tlc_sharded("HopTrace.tla", "HopTrace.cfg", cases, shards=8, workers=1, prefix="hoptrace", timeout=3000)
    acc = {x[0] for x in res.tagged("ACCEPTED")}
    rejected = [c["id"] for c in cases if c["id"] not in acc]
    for i in rejected[:3]:
        core.log("MODEL-DRIFT (not a verdict): the recorded steps of do_minimize for case %s are not a behaviour of Hopcroft.tla" % i)
    return {"traces": len(cases), "traces_accepted": len(acc), "traces_not_a_behaviour": len(rejected), "trace_events": sum(len(c["events"]) for c in cases),
            "trace_states": res.distinct, "rejected_ids": rejected[:10]}


def run(tier):
    t0 = time.time()
    core.build(need_bin=False)
    cases, total, complete = build_corpus(tier, core.seed())
    rec = core.record("compile", cases)
    ok = [r for r in rec if r["obs"]["verdict"] == "ok"]
    byid = {r["id"]: r for r in rec}
    v = core.Verdict("C03")
    # (a)
    res_a, mism, validated_a = equiv.run(ok, ["raw-min"], shards=8)
    for (cid, mode), d in sorted(mism.items()):
        r = byid[cid]
        sig = equiv.classify(d)
        sig["check"] = "language"
        v.mismatch(sig, "%s [%s] raw vs minimised differ after `%s`: raw-only %s min-only %s acc %s/%s" % (
            r["usage"].strip().replace("\n", " "), r["shell"], equiv.fmt_hist(d["hist"]), d["left"], d["right"], d["lacc"], d["racc"]),
            {"usage": r["usage"], "shell": r["shell"], "hist": d["hist"]})
    # (b)
    res_b = core.run_tlc_sharded("MinCheck.tla", "MinCheck.cfg", ok, shards=8, workers=2, prefix="mincheck")
    validated_b = res_b.tagged("VALIDATED")
    for m in res_b.tagged("MISMATCH"):
        d = json.loads(m[0])
        r = byid[d["id"]]
        for prob in d["problems"]:
            if prob == "size_differs_from_minimal" and "not_minimal" in d["problems"]:
                continue
            sig = {"check": "structure", "problem": prob, "allacc": d["allacc"], "where": "top" if d["which"] == 0 else "inner"}
            v.mismatch(sig, "%s [%s] minimised automaton %s: %s (states %d, Nerode classes of raw %d, merged %s unreachable %s dead %s)" % (
                r["usage"].strip().replace("\n", " "), r["shell"], "main" if d["which"] == 0 else "within-word #%d" % d["which"], prob,
                d["nstates"], d["rawclasses"], d["merged"], d["unreachable"], d["dead"]),
                {"usage": r["usage"], "shell": r["shell"], "which": d["which"], "problems": d["problems"]})
    # (c) mechanism model: Hopcroft.tla over every distinct raw automaton, all schedules (design-level; predictions only)
    mech = mechanism(ok, tier)
    mech.update(trace_validation(ok, tier))
    nauto = sum(1 + len(r["obs"]["minsubs"]) for r in ok)
    if len(validated_a) < len(ok) or len(validated_b) < nauto:
        raise core.ToolError("vacuity: validated %d/%d (language) %d/%d (structure)" % (len(validated_a), len(ok), len(validated_b), nauto))
    shrunk = [r for r in ok if len({t["f"] for t in r["obs"]["raw"]["tr"]} | {t["t"] for t in r["obs"]["raw"]["tr"]}) >
              len({t["f"] for t in r["obs"]["min"]["tr"]} | {t["t"] for t in r["obs"]["min"]["tr"]})]
    samples = [{"usage": r["usage"], "raw_transitions": len(r["obs"]["raw"]["tr"]), "min_transitions": len(r["obs"]["min"]["tr"])}
               for r in shrunk[:: max(1, len(shrunk) // 5)][:5]]
    cov = {"states": res_a.distinct + res_b.distinct + mech["states"], "transitions": res_a.generated + res_b.generated + mech["transitions"],
           "mechanism_model": mech,
           "traces_validated_against_impl": len(validated_a) + len(validated_b) + mech.get("traces_accepted", 0), "samples": samples or [{"usage": ok[0]["usage"]}],
           "programs": len(ok), "automata_checked_for_minimality": nauto, "exhaustive": complete, "exhaustive_trees_total": total,
           "evaluations": len(validated_a) + len(validated_b),
           "distinct_nontrivial": len({r["usage"] for r in shrunk}),
           "rule": "exhaustive trees <= 4 nodes (full vocabulary) and <= 6 nodes over {a,b} x {seq,alt,[ ],...} (quick; 5 and 7 sampled in thorough) "
                   "+ random grammars; non-trivial = minimisation actually merged or removed states, distinct by usage text",
           "known_findings_hit": sorted(v.known_hits)}
    rc = v.finish()
    core.write_evidence("C03", tier, "model_checking", cov,
                        ["minimality is relative to the automaton's own alphabet (a within-word automaton is one symbol)",
                         "automata come from the direct construction on generated grammars, not arbitrary DFAs"],
                        time.time() - t0, len(v.violations))
    return rc
