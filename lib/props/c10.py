# C10 - output is a pure function of the input: byte-identical across runs and processes.
# Grammars: the bundled examples and seeded large random grammars (many states, literals, commands, within-word automata,
# several of equal shape) x 4 shells x artefacts {script, --dfa file, --regex file}.  Observations: N separately started
# processes of the real binary with differing environments (locale, HOME, TZ, PATH order, RUST_BACKTRACE, MALLOC_PERTURB_,
# a large random variable that shifts stack/ASLR), the in-process front end, and repeated compilation inside one process.
# Decided by TLC: MemoCheck.tla keyed by (grammar, shell, artefact): the first observation fixes the value.
import glob, json, os, random, time
import core, corpus, gen, cli, memo
from gen import L, R, C


def large_grammar(rnd):
    """many literals, several within-word expressions of equal and different shape, several commands, || levels"""
    lits = ["--%s" % w for w in ("all", "bare", "color", "depth", "exec", "force", "group", "host", "input", "jobs", "keep", "list", "mode", "name")] + \
           ["add", "rm", "mv", "ls", "get", "set", "on", "off", "auto", "x", "y", "z"]
    def word(i):
        vals = rnd.sample(lits[14:], rnd.randint(2, 4))
        return ("sub", [L("--opt%d=" % i), ("alt", [L(v) for v in vals])])
    def word_cmd(i):
        return ("sub", [L("--file%d=" % i), C("echo f%d" % i)])
    items = []
    pool = lits[:14]
    rnd.shuffle(pool)

    def fresh():
        return pool.pop() if pool else "--gen%d" % rnd.randint(100, 999)
    for i in range(rnd.randint(8, 14)):
        k = rnd.random()
        if k < 0.3:
            items.append(word(i))
        elif k < 0.4:
            items.append(word_cmd(i))
        elif k < 0.5:
            items.append(("seq", [L(fresh()), C("echo c%d" % i)]))
        elif k < 0.6:
            items.append(("fb", [L(fresh()), R("X%d" % (i % 3)), C("echo fb%d" % i)]))
        elif k < 0.7:
            items.append(("seq", [L(fresh(), "descr %d" % i), ("opt", R("PATH"))]))
        else:
            items.append(L(fresh(), "d%d" % i if rnd.random() < 0.5 else None))
    sub = [("seq", [L(nm), ("many", ("alt", rnd.sample(items, min(len(items), rnd.randint(2, 5)))))]) for nm in ("add", "rm", "get")]
    top = ("seq", [("many", ("alt", items)), ("alt", sub + [R("UNDEF")])])
    defs = [("X0", "", ("alt", [L("p"), L("q"), ("seq", [L("r"), R("X1")])])), ("X1", "", C("echo x1")), ("X1", "zsh", C("echo x1 zsh")),
            ("X2", "", ("alt", [word(90), word(91)]))]
    rnd.shuffle(defs)
    return [top], defs


ENVS = [
    {},
    {"LANG": "C", "LC_ALL": "C", "HOME": "/nonexistent", "TZ": "UTC"},
    {"LANG": "de_DE.UTF-8", "LC_ALL": "de_DE.UTF-8", "TZ": "Asia/Tokyo", "RUST_BACKTRACE": "1"},
    {"MALLOC_PERTURB_": "85", "PATH": "/usr/bin:/bin", "COLUMNS": "40"},
    {"MALLOC_PERTURB_": "170", "RUST_BACKTRACE": "full", "NO_COLOR": "1", "TERM": "dumb"},
    {"LC_ALL": "tr_TR.UTF-8", "HOME": "/tmp", "RUST_LOG": "trace"},
]


def build_corpus(tier, seed):
    rnd = random.Random(seed)
    texts = []
    for f in sorted(glob.glob(os.path.join(core.REPO, "examples", "*.usage"))):
        texts.append(("example:" + os.path.basename(f), open(f).read()))
    n = 10 if tier == "quick" else 60
    made = 0
    tries = 0
    while made < n and tries < n * 30:
        tries += 1
        variants, defs = large_grammar(rnd)
        c = gen.case(variants, defs)
        texts.append(("large:%d" % made, c["usage"]))
        made += 1
    for c in corpus.random_cases(10 if tier == "quick" else 100, seed + 3, depth=5, max_leaves=64):
        texts.append(("random:%d" % c["id"], c["usage"]))
    return texts


def run(tier):
    t0 = time.time()
    core.build()
    seed = core.seed()
    rnd = random.Random(seed)
    texts = build_corpus(tier, seed)
    nproc = 4 if tier == "quick" else 8
    cases = [{"id": 0, "name": nm, "usage": u, "shell": sh, "opt": {"dest": "file", "destname": "_cmd" if sh == "zsh" else "out.script", "dfa": True, "regex": True}}
             for nm, u in texts for sh in gen.SHELLS]
    # which grammars compile at all (in-process, also an observation of each key)
    inproc = cli.run_inproc(cases)
    recs = []
    log = []

    def observe(c, o, how):
        for art, val in (("script", o.get("script_hash")), ("dfa", o.get("dfa_hash")), ("regex", o.get("regex_hash"))):
            recs.append({"id": len(recs) + 1, "key": "%s|%s|%s" % (c["name"], c["shell"], art),
                         "val": val if o.get("exit") == 0 else "exit%s" % o.get("exit")})
            log.append((c, how))
    good = []
    for c, o in zip(cases, inproc):
        if o.get("exit") == 0 and not o.get("died"):
            good.append(c)
            observe(c, o, "in-process front end")
    if len(good) < len(cases) // 2:
        raise core.ToolError("vacuity: only %d of %d (grammar, shell) pairs compile" % (len(good), len(cases)))
    # separately started processes with differing environments
    if tier == "quick":
        picked = [c for c in good if c["name"].startswith(("example", "large"))]
    else:
        picked = good
    nreal = 0
    for c in picked:
        for p in range(nproc if c["name"].startswith(("example", "large")) else 3):
            env = dict(ENVS[p % len(ENVS)])
            env["VERIF_PAD"] = "x" * rnd.randint(1, 60000)
            o = cli.run_real(dict(c, env=env))
            observe(c, o, "process %d env %s" % (p, sorted(k for k in env if k != "VERIF_PAD")))
            nreal += 1
    # repeated compilation inside one process (library)
    rep = core.record("repeat", [{"usage": c["usage"], "shell": c["shell"]} for c in good], extra=["4"])
    nrep = 0
    for c, r in zip(good, rep):
        o = r["obs"]
        if o.get("ok"):
            recs.append({"id": len(recs) + 1, "key": "%s|%s|in-process-repeat" % (c["name"], c["shell"]), "val": "same"})
            log.append((c, "first of 4 compilations in one process"))
            recs.append({"id": len(recs) + 1, "key": "%s|%s|in-process-repeat" % (c["name"], c["shell"]), "val": "same" if o.get("same") else "differs"})
            log.append((c, "4 compilations in one process"))
            nrep += 1
    # many compilations of small grammars whose result can depend on a randomly keyed table inside the compiler: several
    # within-word expressions of equal shape, the same items in a different arrangement (two automata that differ only in which
    # input sits at which index).  A rare collision (1 in 128 compilations before fix daa324b) needs hundreds of repetitions.
    from props import c04
    fam = []
    for variants in c04.shapes(rnd):
        for sh in gen.SHELLS:
            fam.append(dict(gen.case(variants, [], shell=sh), name="family:%d" % (len(fam) // 4)))
    nmany = 400 if tier == "quick" else 3000
    rep2 = core.record("repeat", [{"usage": c["usage"], "shell": c["shell"]} for c in fam], extra=[str(nmany)])
    for c, r in zip(fam, rep2):
        o = r["obs"]
        if o.get("ok"):
            recs.append({"id": len(recs) + 1, "key": "%s|%s|in-process-repeat" % (c["name"], c["shell"]), "val": "same"})
            log.append((c, "first of %d compilations in one process" % nmany))
            recs.append({"id": len(recs) + 1, "key": "%s|%s|in-process-repeat" % (c["name"], c["shell"]), "val": "same" if o.get("same") else "differs"})
            log.append((c, "%d compilations in one process" % nmany))
            nrep += 1
    res, mism, nval = memo.run(recs, shards=8)
    v = core.Verdict("C10")
    for d in mism:
        c, how = log[d["id"] - 1]
        art = d["key"].split("|")[-1]
        v.mismatch({"kind": "output_differs", "artefact": art, "how": "in_process" if "process" not in how or "in one process" in how else "across_processes"},
                   "%s [%s] %s: %s gives %s, first observation was %s" % (c["name"], c["shell"], art, how, d["val"], d["first"]),
                   {"usage": c["usage"], "shell": c["shell"], "artefact": art, "observation": how, "digests": [d["val"], d["first"]]})
    if nval < len(recs):
        raise core.ToolError("vacuity: memo model consumed %d of %d records" % (nval, len(recs)))
    keys = {r["key"] for r in recs}
    samples = [{"grammar": c["name"], "shell": c["shell"], "bytes": len(c["usage"]), "first_lines": c["usage"][:160]} for c in good[:: max(1, len(good) // 4)][:4]]
    cov = {"states": res.distinct, "transitions": res.generated, "traces_validated_against_impl": nval, "samples": samples,
           "programs": len(texts), "evaluations": len(recs), "distinct_nontrivial": len(keys), "processes_started": nreal, "processes_per_key": nproc,
           "in_process_repeats": nrep,
           "rule": "bundled examples + seeded large grammars (8-14 option items incl. within-word expressions of equal and different shape, commands, "
                   "|| levels, subcommands) + random grammars, x 4 shells x {script, --dfa, --regex}; observations from the in-process front end, from "
                   "separately started processes with %d environments and random environment size, and from 4 compilations in one process; "
                   "non-trivial = distinct (grammar, shell, artefact) keys" % len(ENVS),
           "known_findings_hit": sorted(v.known_hits)}
    rc = v.finish()
    core.write_evidence("C10", tier, "model_checking", cov,
                        ["the line of the script that carries complgen's version is not compared",
                         "with the current dependency set no hash container is randomly seeded, so all processes take the same schedule; a change that "
                         "introduces a randomly seeded or address-ordered container is caught with the probability that two of the processes order some "
                         "container differently and the order reaches the output - hence large grammars and several processes",
                         "process creation is slow in this sandbox, which bounds the number of separately started processes"],
                        time.time() - t0, len(v.violations))
    return rc
