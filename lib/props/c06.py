# C06 - the compiler never crashes or hangs: script + exit 0, or diagnostic + exit 1.
# Inputs: TLC enumerates edit sequences (EditGen.tla: delete / duplicate / swap / insert bracket or operator / truncate /
# splice bytes) over the token lists of seed grammars - the bundled examples, generated clean grammars and grammars with one
# planted mistake of every class - all single edits, all pairs for small seeds; plus seeded token soups, deep nesting and long
# lines; x target shell x destination {stdout, fresh file, existing file, unwritable path} x {--dfa/--regex on or off}.
# Observed: exit status, stderr, destination state of the command.  Decided by TLC: every distinct (options, terminal state)
# pair must be a terminal state of Cli.tla (CliCheck.tla), whose own invariants say failure is clean and success is complete.
import glob, json, os, random, re, time
import core, corpus, gen, plant, cli, edits

DESTS = ["file", "file", "existing", "stdout", "unwritable"]


def seeds(tier, seed):
    rnd = random.Random(seed)
    out = []
    for f in sorted(glob.glob(os.path.join(core.REPO, "examples", "*.usage"))):
        out.append(("example:" + os.path.basename(f), open(f, "rb").read()))
    for snippet in ["cmd (--color=(always | never | auto) \"when\" | -v) <PATH>... [--] {{{ echo a\tb }}};\n<X@bash> = {{{ compgen -A user }}};\n",
                    "grep [<OPTION>]... <PATTERN> <FILE>...;\n<OPTION> ::= --color=<WHEN> | -e <PATTERN> \"pattern\";\n<WHEN> ::= always | never;\n",
                    "cargo +<toolchain> (build | test) || help;\n<toolchain> ::= {{{ rustup toolchain list | cut -d' ' -f1 }}};\n",
                    "cmd (foo || --opt=(a|b));\n", "cmd <MODE> [--verbose];\n<MODE> = fast | slow || --level=<LEVEL>;\n<LEVEL> = 1|2|3;\n",
                    "cmd (a || b || {{{ echo x }}}:(u|v));\n", "cmd (--a=(foo || bar) | --b=(baz || qux)) <FILE> \"a file\";\n",
                    "cmd (start \"boot it\" | stop \"halt it\") \"lifecycle\" [--x=<U>]...;\n"]:
        out.append(("snippet", snippet.encode()))
    n = 12 if tier == "quick" else 80
    made = 0
    while made < n:
        variants, defs = corpus.random_grammar(rnd, depth=rnd.choice([2, 3]), with_probes=False, p_descr=0.3)
        if not corpus.clean(variants, defs) or corpus.leaves_count(variants, defs) > 20:
            continue
        made += 1
        out.append(("clean:%d" % made, gen.case(variants, defs)["usage"].encode()))
        cls = plant.CLASSES[made % len(plant.CLASSES)]
        try:
            vs, ds, _ = plant.plant(variants, defs, cls, rnd, rnd.choice(gen.SHELLS))
            out.append(("planted:%s:%d" % (cls, made), gen.case(vs, ds, named=True)["usage"].encode()))
        except Exception:
            pass
    small = [("tiny:%d" % i, t.encode()) for i, t in enumerate(["cmd a;\n", "cmd <X>;\n<X> = a;\n", "cmd --o=(a|b) \"d\";\n", "cmd [a]... || {{{ e }}};\n",
                                                               "cmd a\\|b \"x\\\"y\";\n<A@zsh> = {{{ z }}};\n"])]
    return out, small


def soups(rnd, n):
    vocab = [b"cmd", b"a", b"--x=", b"<X>", b"<X@bash>", b"<_>", b"=", b"::=", b";", b"(", b")", b"[", b"]", b"|", b"||", b"...", b'"d"', b"{{{ e }}}",
             b"\\(", b"\\", b"#c\n", b"\n", b"\f", b"<", b">", b'"', b"{{{", b"}}}", b"\xe2\x82\xac", b".", b"..", b"<PATH>", b"@"]
    out = []
    for i in range(n):
        k = rnd.randint(1, 14)
        out.append(b" ".join(rnd.choice(vocab) for _ in range(k)) if rnd.random() < 0.7 else b"".join(rnd.choice(vocab) for _ in range(k)))
    return out


def specials():
    out = []
    for depth in (50, 200, 500):
        out.append(("nest_paren_%d" % depth, b"cmd " + b"(" * depth + b"a" + b")" * depth + b";\n"))
        out.append(("nest_brack_%d" % depth, b"cmd " + b"[" * depth + b"a" + b"]" * depth + b";\n"))
        out.append(("nest_mixed_%d" % depth, b"cmd " + b"(a | [" * depth + b"b" + b"])" * depth + b";\n"))
        out.append(("chain_defs_%d" % depth, b"cmd <N0>;\n" + b"".join(b"<N%d> = x <N%d>;\n" % (i, i + 1) for i in range(depth)) + b"<N%d> = y;\n" % depth))
    out.append(("long_line", b"cmd " + b" | ".join(b"opt%d" % i for i in range(3000)) + b";\n"))
    out.append(("long_literal", b"cmd " + b"x" * 200000 + b";\n"))
    out.append(("many_statements", b"".join(b"cmd a%d b;\n" % i for i in range(2000))))
    out.append(("empty", b""))
    out.append(("only_comment", b"# nothing\n"))
    out.append(("bom", b"\xef\xbb\xbfcmd a;\n"))
    out.append(("crlf", b"cmd a\r\n | b;\r\n"))
    out.append(("nul_inside", b"cmd a\x00b;\n"))
    out.append(("latin1", b"cmd caf\xe9;\n"))
    return out


def project(c, o):
    """(options, observed terminal state) in the vocabulary of Cli.tla (projection of the raw observation)"""
    opt = c["opt"]
    mode = opt["dest"]
    tail = o.get("script_tail", "")
    sh = c["shell"]
    complete = o.get("script_len", 0) > 0 and ((sh == "bash" and re.search(r"complete -o nospace -F _\S+ \S+\n$", tail) is not None) or
                                                (sh == "fish" and re.search(r"complete --command \S+ .*\n$", tail) is not None) or
                                                (sh == "zsh" and tail.endswith("fi\n")) or (sh == "pwsh" and tail.endswith("}\n")))
    if mode == "unwritable":
        dest = "untouched"
    elif mode == "stdout":
        dest = "untouched" if o.get("script_len", 0) == 0 else ("complete" if complete else "other")
    else:
        st = o.get("dest")
        dest = "untouched" if st in ("absent", "unchanged") else ("complete" if complete else "other")
    return ({"dest": mode, "dfa": bool(opt.get("dfa")), "regex": bool(opt.get("regex")), "input": opt.get("input", "file")},
            {"exit": o.get("exit") if isinstance(o.get("exit"), int) else -9, "stderr": "nonempty" if o.get("stderr_len", len(o.get("stderr", ""))) > 0 else "empty",
             "dest": dest, "regexfile": "written" if o.get("regex_exists") else "absent", "dfafile": "written" if o.get("dfa_exists") else "absent"})


def run(tier):
    t0 = time.time()
    core.build()
    seed = core.seed()
    rnd = random.Random(seed)
    big, small = seeds(tier, seed)
    toks = {}
    gen_in = []
    for i, (nm, data) in enumerate(big + small):
        t, tr = edits.tokenize(data)
        toks[i + 1] = (nm, t, tr, data)
    res1 = core.run_tlc_sharded("EditGen.tla", "EditGen.cfg", [{"id": i, "ntok": len(toks[i][1])} for i in toks if toks[i][0][:4] != "tiny"],
                                shards=8, workers=2, prefix="edit1", env={"MAXEDITS": "1"})
    res2 = core.run_tlc_sharded("EditGen.tla", "EditGen.cfg", [{"id": i, "ntok": len(toks[i][1])} for i in toks if toks[i][0][:4] == "tiny"],
                                shards=5, workers=2, prefix="edit2", env={"MAXEDITS": "2"})
    replays = [json.loads(r[0]) for r in res1.tagged("REPLAY") + res2.tagged("REPLAY")]
    nall = len(replays)
    # budget: the edits of one seed are sampled when there are many (large seeds), weighted by 1/size of the seed
    per_seed = {}
    for r in replays:
        per_seed.setdefault(r["id"], []).append(r)
    cap = 700 if tier == "quick" else 6000
    replays = []
    for i, rs in sorted(per_seed.items()):
        size = max(1, len(toks[i][3]) // 400)
        k = max(60, cap // size)
        replays += rs if len(rs) <= k else rnd.sample(rs, k)
    cases = []

    def add(name, data, shell=None, **optkw):
        sh = shell or rnd.choice(gen.SHELLS)
        opt = {"dest": rnd.choice(DESTS), "dfa": rnd.random() < 0.2, "regex": rnd.random() < 0.2, "destname": "_cmd" if sh == "zsh" else "out.script"}
        opt.update(optkw)
        c = {"id": len(cases) + 1, "name": name, "shell": sh, "opt": opt, "_data": data}
        try:
            c["usage"] = data.decode("utf-8")
            if "\r" in c["usage"] or "\x00" in c["usage"]:
                raise ValueError
        except ValueError:
            c.pop("usage", None)
            c["usage_b"] = list(data)
        cases.append(c)
    for i in toks:
        for sh in gen.SHELLS:
            add("seed:" + toks[i][0], toks[i][3], shell=sh)
    for r in replays:
        nm, t, tr, _ = toks[r["id"]]
        add("edit:%s:%s" % (nm, r["edits"]), edits.apply(t, tr, r["edits"]))
    for j, s in enumerate(soups(rnd, 2000 if tier == "quick" else 40000)):
        add("soup:%d" % j, s)
    for nm, data in specials():
        for sh in gen.SHELLS:
            add("special:" + nm, data, shell=sh, dest="file")
    add("missing_input", b"", input="missing")
    for i in list(toks)[:12]:
        add("stdin:" + toks[i][0], toks[i][3], input="stdin", dest=rnd.choice(["stdout", "file", "existing"]))
    for j, sp in enumerate(soups(rnd, 30)):
        add("stdin-soup:%d" % j, sp, input="stdin", dest="stdout")
    obs, stats = cli.observe(cases, sample=60 if tier == "quick" else 400, seed=seed, max_confirm=150 if tier == "quick" else 600,
                             alarming=lambda o: o.get("exit") not in (0, 1) or (o.get("exit") == 1 and o.get("stderr_len", 1) == 0) or
                             (o.get("exit") == 1 and o.get("dest") == "written"))
    pairs = {}
    for c, o in zip(cases, obs):
        if o.get("unconfirmed"):
            continue
        opt, st = project(c, o)
        key = json.dumps([opt, st], sort_keys=True)
        pairs.setdefault(key, {"opt": opt, "obs": st, "cases": []})["cases"].append((c, o))
    recs = [{"id": i + 1, "opt": p["opt"], "obs": p["obs"]} for i, p in enumerate(pairs.values())]
    res = core.run_tlc("CliCheck.tla", "CliCheck.cfg", cases_path=_write(recs), workers=4, tag="clicheck")
    accepted = {x[0] for x in res.tagged("ACCEPTED")}
    validated = {x[0] for x in res.tagged("VALIDATED")}
    if len(validated) < len(recs):
        raise core.ToolError("vacuity: %d of %d (options, outcome) pairs explored" % (len(validated), len(recs)))
    v = core.Verdict("C06")
    nbad = 0
    for i, p in enumerate(pairs.values()):
        if (i + 1) in accepted:
            continue
        for c, o in p["cases"]:
            nbad += 1
            st = p["obs"]
            err = o.get("stderr", "")
            if o.get("died") == "hang" or st["exit"] == -8:
                kind = "timeout"
            elif st["exit"] == 101:
                kind = "panic"
            elif st["exit"] in (-6, 134, -11, 139):
                kind = "abort"
            elif st["exit"] not in (0, 1):
                kind = "wrong_status"
            elif st["exit"] == 1 and st["dest"] != "untouched":
                kind = "dest_clobbered"
            elif st["exit"] == 1 and st["stderr"] == "empty":
                kind = "silent_failure"
            elif st["exit"] == 0 and st["dest"] != "complete":
                kind = "incomplete_script"
            else:
                kind = "other"
            sig = {"kind": kind}
            m = re.search(r"panicked at \S*?((?:src|[\w.-]+-\d[\w.]*/src)/[\w/]+\.rs)", err)
            if m:
                sig["where"] = m.group(1)
            if "overflowed its stack" in err:
                sig["how"] = "stack_overflow"
            if c["name"].startswith("special:"):
                sig["input"] = c["name"]
            data = c["_data"]
            v.mismatch(sig, "%s [%s, dest %s]: exit %s stderr %r destination %s | input %r" % (c["name"][:80], c["shell"], c["opt"]["dest"], st["exit"], err[:200], st["dest"], data[:300]),
                       {"usage_bytes": list(c["_data"][:20000]), "shell": c["shell"], "opt": c["opt"], "observed": st, "stderr": err[:2000]})
    exits = {}
    for c, o in zip(cases, obs):
        exits[str(o.get("exit"))] = exits.get(str(o.get("exit")), 0) + 1
    samples = [{"name": c["name"][:120], "shell": c["shell"], "opt": {k: c["opt"][k] for k in ("dest", "dfa", "regex")}, "input": c["_data"][:160].decode("utf-8", "replace"),
                "exit": o.get("exit")} for c, o in list(zip(cases, obs))[200:: max(1, len(cases) // 5)][:5]]
    cov = {"states": res.distinct + res1.distinct + res2.distinct, "transitions": res.generated + res1.generated + res2.generated,
           "traces_validated_against_impl": sum(len(p["cases"]) for p in pairs.values()), "samples": samples, "programs": len(toks),
           "evaluations": len(cases), "distinct_nontrivial": len({c["_data"] for c in cases}), "distinct_outcome_pairs": len(recs),
           "exit_statuses": exits, "edit_sequences": len(replays), "edit_sequences_enumerated": nall, "front_end": stats, "runs_outside_model": nbad,
           "rule": "seeds = bundled examples + README-style snippets + generated clean grammars + grammars with one planted mistake of each class; TLC "
                   "enumerates all single token edits of every seed and all edit pairs of 5 tiny seeds (sampled to a budget); + seeded token soups + "
                   "deep nesting (50/200/500) / long lines / BOM / CRLF / NUL / invalid UTF-8 / empty / missing file; x random shell x destination "
                   "{fresh file, existing file, stdout, unwritable} x --dfa/--regex; non-trivial = distinct input bytes",
           "known_findings_hit": sorted(v.known_hits)}
    rc = v.finish()
    core.write_evidence("C06", tier, "model_checking", cov,
                        ["runs go through main.rs compiled into the recorder; every outcome other than a clean 0/1 and a random sample are re-run with the real "
                         "binary (dev profile) and only the binary's observation is reported; stdin input is exercised only by the sampled real runs",
                         "`complete script` is judged by the shell-specific trailer of the script",
                         "a run of the recorder that does not return within its time limit counts as a hang of that input and is confirmed with the binary (20 s)"],
                        time.time() - t0, len(v.violations))
    return rc


def _write(recs):
    p = os.path.join(core.WORK, "tlc", "clicheck-%d.ndjson" % os.getpid())
    with open(p, "w") as f:
        for r in recs:
            f.write(json.dumps(r) + "\n")
    return p
