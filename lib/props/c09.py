# C09 - a typed word never has two readings; `||` is transparent to matching.
# (a) decided exactly on the compiled automaton: for every reachable state of the recorded minimised automaton and every
#     pair of outgoing literal / within-word items with different targets, TLC explores the character-level product of the
#     two items' word languages (Overlap.tla); a reachable state where both may stop is a word with two readings.
# (b) by execution: TLC-generated command lines (Walk.tla) are answered by the real bash on the script of G and on the
#     script of G with every `||` replaced by `|`; LevelsCheck.tla validates same status, reply(G) subset of reply(G|),
#     and non-emptiness.
import json, random, re, time
import core, corpus, gen, bashflow, bashdrv
from gen import L, R, C


def erase(e):
    k = e[0]
    if k == "fb" or k == "alt":
        cs = []
        for c in e[1]:
            c = erase(c)
            if c[0] == "alt":
                cs.extend(c[1])
            else:
                cs.append(c)
        return ("alt", cs)
    if k in ("seq", "sub"):
        return (k, [erase(c) for c in e[1]])
    if k in ("opt", "many"):
        return (k, erase(e[1]))
    if k == "dd":
        return ("dd", erase(e[1]), e[2])
    return e


def families(rnd):
    w = lambda pre, vals: ("sub", [L(pre), ("alt", [L(v) for v in vals])])
    out = []
    out.append(("same_literal_two_levels", [("fb", [("seq", [L("a"), L("b")]), ("seq", [L("a"), L("c")])])], []))
    out.append(("same_literal_three_levels", [("seq", [("fb", [("seq", [L("a"), L("b")]), ("seq", [L("a"), L("c")]), ("seq", [L("a"), L("d")])]), L("z")])], []))
    out.append(("same_literal_two_variants", [("seq", [L("a"), L("b")]), ("seq", [L("a"), L("c")])], []))
    out.append(("same_literal_level_and_plain", [("alt", [("fb", [L("x"), ("seq", [L("a"), L("b")])]), ("seq", [L("a"), L("c")])])], []))
    out.append(("word_permuted", [("alt", [("seq", [w("--x=", ["p", "q"]), L("r")]), ("seq", [w("--x=", ["q", "p"]), L("s")])])], []))
    out.append(("word_permuted3", [("alt", [("seq", [w("-o", ["p", "q", "t"]), L("r")]), ("seq", [w("-o", ["t", "p", "q"]), L("s")])])], []))
    out.append(("word_same_twice", [("alt", [("seq", [w("--x=", ["p", "q"]), L("r")]), ("seq", [w("--x=", ["p", "q"]), L("s")])])], []))
    out.append(("word_via_definitions", [("alt", [("seq", [R("A"), L("r")]), ("seq", [R("B"), L("s")])])],
                [("A", "", w("--x=", ["p", "q"])), ("B", "", w("--x=", ["q", "p"]))]))
    out.append(("word_values_via_definitions", [("alt", [("seq", [("sub", [L("--x="), R("V")]), L("r")]), ("seq", [("sub", [L("--x="), R("W")]), L("s")])])],
                [("V", "", ("alt", [L("p"), L("q")])), ("W", "", ("alt", [L("q"), L("p")]))]))
    out.append(("word_two_levels", [("fb", [("seq", [w("--x=", ["p", "q"]), L("r")]), ("seq", [w("--x=", ["p", "q"]), L("s")])])], []))
    out.append(("word_inner_levels", [("alt", [("seq", [("sub", [L("--x="), ("fb", [L("p"), L("q")])]), L("r")]), ("seq", [w("--x=", ["p", "q"]), L("s")])])], []))
    out.append(("word_inner_descriptions", [("alt", [("seq", [("sub", [L("--x="), ("alt", [L("p", "d1"), L("q")])]), L("r")]), ("seq", [w("--x=", ["p", "q"]), L("s")])])], []))
    out.append(("word_nested_grouping", [("alt", [("seq", [("sub", [L("--x="), ("alt", [L("p"), ("alt", [L("q"), L("t")])])]), L("r")]),
                                                  ("seq", [w("--x=", ["p", "q", "t"]), L("s")])])], []))
    out.append(("word_optional_vs_alt", [("alt", [("seq", [("sub", [L("-v"), ("opt", L("v"))]), L("r")]), ("seq", [L("-v"), L("s")])])], []))
    out.append(("word_in_earlier_branch_than_literals", [("fb", [w("--color=", ["always", "never"]), L("plain"), L("mono")])], []))
    out.append(("word_identical_two_variants", [("seq", [w("--opt=", ["a", "b"]), L("x")]), ("seq", [w("--opt=", ["a", "b"]), L("y")])], []))
    out.append(("word_identical_two_definitions", [("alt", [("seq", [R("FIRST"), L("x")]), ("seq", [R("SECOND"), L("y")])])],
                [("FIRST", "", w("--opt=", ["a", "b"])), ("SECOND", "", w("--opt=", ["a", "b"]))]))
    out.append(("same_literal_two_descriptions_apart", [("seq", [L("remote", "Manage remotes"), L("add")]), L("status"), ("seq", [L("remote", "manage set of tracked repositories"), L("rm")])], []))
    out.append(("word_in_later_branch_after_literals", [("seq", [L("--verbose"), ("fb", [L("foo"), w("--x=", ["a", "b"])])])], []))
    out.append(("word_in_later_branch_after_p", [("seq", [L("p"), ("fb", [L("foo"), w("--x=", ["a", "b"])])])], []))
    out.append(("word_repeat_two_variants", [("seq", [w("k=", ["1", "2"]), L("r")]), ("seq", [w("k=", ["2", "1"]), L("s")])], []))
    return out


def build_corpus(tier, seed):
    rnd = random.Random(seed)
    cases = []
    for name, variants, defs in families(rnd):
        c = gen.case(variants, defs, shell="bash")
        cases.append(corpus.annotate_bash(corpus.finish(c, len(cases) + 1, origin="family:" + name, _trees=(variants, defs)), bashdrv.PROBE_CLASSES))
    nfam = len(cases)
    # random grammars rich in `||` and within-word expressions over a small literal pool (so that repeats happen)
    n = 150 if tier == "quick" else 2500
    rc = corpus.bash_random_cases(n, seed + 9, bashdrv.PROBE_CLASSES, start_id=1000, depth=4, lits=["a", "b", "--x=", "p", "q", "-o"],
                                  ops=["seq", "alt", "fb", "fb", "sub", "opt", "many"])
    return cases, rc, nfam


def run(tier):
    t0 = time.time()
    core.build()
    seed = core.seed()
    rnd = random.Random(seed)
    fam, rc, nfam = build_corpus(tier, seed)
    cases = fam + rc
    rec = core.record("compile", [{k: v for k, v in c.items() if not k.startswith("_")} for c in cases])
    ok = [r for r in rec if r["obs"]["verdict"] == "ok"]
    v = core.Verdict("C09")
    # (a)
    strip = [{"id": r["id"], "obs": {"verdict": "ok", "min": r["obs"]["min"], "minsubs": r["obs"]["minsubs"]}} for r in ok]
    res_a = core.run_tlc_sharded("Overlap.tla", "Overlap.cfg", strip, shards=12, workers=2, prefix="overlap", timeout=3000)
    byid = {r["id"]: r for r in rec}
    seen = set()
    overlaps = {}
    for m in res_a.tagged("MISMATCH"):
        d = json.loads(m[0])
        key = (d["id"], d.get("where", 0), d["state"], json.dumps(d["left"], sort_keys=True), json.dumps(d["right"], sort_keys=True))
        if key in seen:
            continue
        seen.add(key)
        r = byid[d["id"]]
        l, rr = d["left"], d["right"]
        kinds = "%s/%s" % tuple(sorted([l["k"], rr["k"]]))
        sig = {"check": "automaton", "kinds": kinds}
        if kinds == "lit/lit":
            sig["differ_in"] = "level" if l["lv"] != rr["lv"] else ("description" if (l["d"], l["hd"]) != (rr["d"], rr["hd"]) else "nothing")
        elif kinds == "sub/sub":
            same_auto = l["sub"] and rr["sub"] and json.dumps(r["obs"]["minsubs"][l["sub"] - 1], sort_keys=True) == json.dumps(r["obs"]["minsubs"][rr["sub"] - 1], sort_keys=True)
            sig["differ_in"] = "level" if l["lv"] != rr["lv"] else ("identity_only" if same_auto else "expression")
        word = "".join(chr(x) for x in d["word"])
        overlaps.setdefault(d["id"], set()).add("%s:%s" % (kinds, sig.get("differ_in")))
        v.mismatch(sig, "%s: at state %s%s the %s `%s` is read by two items leading to states %s and %s: %s / %s" % (
            r["usage"].strip().replace("\n", " "), d["state"], " of within-word automaton #%d" % d["where"] if d.get("where") else "",
            "token" if d.get("where") else "word", word, d["lto"], d["rto"],
            {k: l[k] for k in ("k", "t", "d", "lv", "sub")}, {k: rr[k] for k in ("k", "t", "d", "lv", "sub")}),
            {"usage": r["usage"], "word": word, "state": d["state"], "left": l, "right": rr})
    npairs = len(res_a.tagged("VALIDATED"))
    # (b) execution against the `|` variant
    exe = [c for c in fam if byid[c["id"]]["obs"]["verdict"] == "ok"] + [c for c in rc if byid[c["id"]]["obs"]["verdict"] == "ok" and
                                                                          any(n["k"] == "fb" for n in c["ast"]["nodes"]) and not any(n["k"] == "cmd" for n in c["ast"]["nodes"])][: (25 if tier == "quick" else 400)]
    twins = []
    for c in exe:
        e = dict(c)
        e["usage"] = _erased_usage(c)
        twins.append(e)
    a = bashflow.emit_scripts(exe)
    b = bashflow.emit_scripts(twins)
    bid = {c["id"]: c for c in b}
    both = [c for c in a if c["id"] in bid]
    res_w, reps = bashflow.walk(both, 3)
    qb = {cid: bashflow.make_queries(r, budget=14 if tier == "quick" else 30, rnd=rnd) for cid, r in reps.items()}
    ra = bashflow.execute(both, qb)
    rb = bashflow.execute([bid[c["id"]] for c in both], qb)
    recs = []
    rawq = {}
    for x, y in zip(ra, rb):
        qs = []
        for qa, qe, raw_a, raw_e in zip(x["queries"], y["queries"], x["_raw"], y["_raw"]):
            qs.append({"rc": qa["rc"], "reply": qa["reply"], "rce": qe["rc"], "replye": qe["reply"]})
        recs.append({"id": x["id"], "queries": qs})
        rawq[x["id"]] = (x["_raw"], y["_raw"], y["usage"])
    res_b = core.run_tlc_sharded("LevelsCheck.tla", "LevelsCheck.cfg", recs, shards=4, workers=2, prefix="levels")
    for m in res_b.tagged("MISMATCH"):
        d = json.loads(m[0])
        r = byid[d["id"]]
        qa, qe, eus = rawq[d["id"]][0][d["qi"] - 1], rawq[d["id"]][1][d["qi"] - 1], rawq[d["id"]][2]
        for f in sorted(d["failed"]):
            ov = sorted(overlaps.get(d["id"], []))
            esig = {"check": "execution", "kind": f, "automaton_overlaps": ov, "no_overlap": not ov}
            for o in ov:        # one flag per kind of overlap the automaton has: a recorded finding names the kind, not the whole list
                esig["has_" + re.sub(r"[^a-z]+", "_", o)] = True
            v.mismatch(esig,
                       "%s | line: cmd %s %s^ -> rc %d %s; with `|` for `||` (%s): rc %d %s" % (
                           r["usage"].strip().replace("\n", " "), " ".join(qa["words"]), qa["prefix"], qa["rc"], qa["reply"], eus.strip().replace("\n", " "), qe["rc"], qe["reply"]),
                       {"usage": r["usage"], "erased": eus, "words": qa["words"], "prefix": qa["prefix"], "with_levels": {"rc": qa["rc"], "reply": qa["reply"]},
                        "erased_levels": {"rc": qe["rc"], "reply": qe["reply"]}})
    nq = len(res_b.tagged("VALIDATED"))
    if npairs == 0 or nq < sum(len(r["queries"]) for r in recs) or nq == 0:
        raise core.ToolError("vacuity: %d item pairs explored, %d command lines compared" % (npairs, nq))
    samples = [{"usage": r["usage"], "within_word_automata": len(r["obs"]["minsubs"]), "transitions": len(r["obs"]["min"]["tr"])} for r in ok[:: max(1, len(ok) // 4)][:4]]
    cov = {"states": res_a.distinct + res_b.distinct + res_w.distinct, "transitions": res_a.generated + res_b.generated + res_w.generated,
           "traces_validated_against_impl": len(ok) + nq, "samples": samples, "programs": len(ok), "item_pairs_explored": npairs,
           "command_lines_compared": nq, "evaluations": npairs + nq, "distinct_nontrivial": npairs + len({(x["id"], i) for x in recs for i in range(len(x["queries"]))}),
           "families": nfam,
           "rule": "%d hand-listed shapes (same literal at two/three levels, in two variants; the same within-word expression repeated with permuted "
                   "alternatives, through definitions, at different levels, with different inner levels / descriptions / grouping) + seeded random grammars "
                   "over a 6-literal pool biased towards `||` and within-word expressions; (a) every pair of outgoing literal/within-word items with different "
                   "targets at every reachable state of the minimised automaton; (b) TLC-generated command lines on G and on G with `|` for `||`; "
                   "non-trivial = item pairs explored + distinct command lines compared" % nfam,
           "known_findings_hit": sorted(v.known_hits)}
    rcode = v.finish()
    core.write_evidence("C09", tier, "model_checking", cov,
                        ["the executed grammars contain no external commands (the same command expected in two branches is outside the statement)",
                         "command items and any-word items are not paired, nor a literal with a within-word expression (their priority is specified by C01/C17)",
                         "inside a within-word automaton command items are taken to read nothing (their output is unknown to the compiler)",
                         "only bash is executed"], time.time() - t0, len(v.violations))
    return rcode


def _erased_usage(c):
    variants, defs = c.get("_trees") or (None, None)
    if variants is None:
        variants, defs = _trees_from_ast(c["ast"])
    ev = [erase(v) for v in variants]
    ed = [(n, s, erase(t)) for (n, s, t) in defs]
    return gen.case(ev, ed, shell="bash")["usage"]


def _trees_from_ast(ast):
    nodes = ast["nodes"]

    def build(i):
        n = nodes[i - 1]
        k = n["k"]
        if k == "lit":
            return L(n["t"], n["d"] if n["hd"] else None)
        if k == "ref":
            return R(n["t"])
        if k == "cmd":
            return C(n["t"])
        if k == "dd":
            return ("dd", build(n["c"][0]), n["t"])
        if k in ("opt", "many"):
            return (k, build(n["c"][0]))
        return (k, [build(x) for x in n["c"]])
    return [build(v["root"]) for v in ast["variants"]], [(d["name"], d["sh"], build(d["root"])) for d in ast["defs"]]
