# C02 - compiled automaton recognises exactly the grammar's language, labels included.
# Decided by TLC: product exploration Meaning (from the generator's tree) x recorded automaton
# (raw and minimised), all four shells.  See DESIGN.md section 7, C02.
import json, time, random
import core, corpus, equiv, gen


def build_corpus(tier, seed):
    rnd = random.Random(seed)
    if tier == "quick":
        cases, total = corpus.exhaustive(4)
        exh_complete = True
        nrand = 150
    else:
        cases, total = corpus.exhaustive(5, limit=16000, rnd=rnd)
        exh_complete = len(cases) == total
        nrand = 1500
    rc = corpus.random_cases(nrand * 4, seed, start_id=len(cases) + 1, shells=gen.SHELLS, depth=4)
    # acyclic definition graphs with shared descendants, definitions in random order
    from props import c08
    dag = []
    chains = []
    for depth in (3, 4, 5, 6):
        names = ["N%d" % i for i in range(depth)]
        defs = [(nm, "", ("seq", [gen.L("w%d" % i), gen.R(names[i + 1])]) if i + 1 < depth else ("alt", [gen.L("foo"), gen.L("bar")])) for i, nm in enumerate(names)]
        chains.append(([("seq", [gen.R(names[0]), gen.L("end")])], defs))
        chains.append(([("seq", [("sub", [gen.L("--k="), gen.R(names[0])]), gen.L("end")])], [(nm, s_, ("alt", [gen.L("v%d" % i), gen.R(names[i + 1])]) if i + 1 < depth else b) for i, (nm, s_, b) in enumerate(defs)]))
    for variants, defs in chains + c08.dag_grammars(rnd, 40 if tier == "quick" else 600):
        for k in range(2):
            ds = list(defs)
            rnd.shuffle(ds)
            c = gen.case(variants, ds, shell=rnd.choice(gen.SHELLS))
            dag.append(corpus.finish(c, len(cases) + len(rc) + len(dag) + 1, origin="dag"))
    return cases + rc + dag, total, exh_complete


def run(tier):
    t0 = time.time()
    seed = core.seed()
    core.build(need_bin=False)
    cases, total, exh_complete = build_corpus(tier, seed)
    rec = core.record("compile", cases)
    ok = [r for r in rec if r["obs"]["verdict"] == "ok"]
    res, mism, validated = equiv.run(ok, ["spec-raw", "spec-min"], shards=12 if tier == "thorough" else 8,
                                     coverage=(tier == "thorough"))
    v = core.Verdict("C02")
    byid = {r["id"]: r for r in rec}
    for (cid, mode), d in sorted(mism.items()):
        r = byid[cid]
        sig = equiv.classify(d)
        what = "%s [%s] after `%s`: spec-only %s impl-only %s acc %s/%s" % (
            r["usage"].strip().replace("\n", " "), r["shell"], equiv.fmt_hist(d["hist"]),
            json.dumps(d["left"]), json.dumps(d["right"]), d["lacc"], d["racc"])
        v.mismatch(sig, what, {"usage": r["usage"], "shell": r["shell"], "mode": mode, "hist": d["hist"],
                               "spec_only": d["left"], "impl_only": d["right"]})
    nontrivial = {r["usage"] for r in ok if len(r["obs"]["raw"]["tr"]) >= 2}
    if len(validated) < 2 * len(ok):
        raise core.ToolError("vacuity: %d of %d records validated" % (len(validated), 2 * len(ok)))
    samples = [{"usage": r["usage"], "shell": r["shell"], "raw_states": len({t["f"] for t in r["obs"]["raw"]["tr"]} | {t["t"] for t in r["obs"]["raw"]["tr"]}),
                "within_word_automata": len(r["obs"]["rawsubs"])} for r in ok[:: max(1, len(ok) // 5)][:5]]
    cov = {"states": res.distinct, "transitions": res.generated, "traces_validated_against_impl": len(validated),
           "samples": samples, "programs": len(ok), "grammars_generated": len(cases),
           "rejected_by_complgen": len(rec) - len(ok),
           "exhaustive": exh_complete, "exhaustive_trees_total": total,
           "distinct_nontrivial": len(nontrivial), "evaluations": len(validated),
           "rule": "every normal-form expression tree with <= N nodes over the vocabulary {a, ab, b \"dl\", <X> defined, <U>, <_>, {{{cmd}}}} "
                   "(N=4 quick, N=5 thorough, sampled to 16000 when larger) + seeded random grammars with 0-4 definitions, shell-specific "
                   "definitions and PATH/DIRECTORY, x 4 shells; each accepted grammar is one complete product exploration against the raw and "
                   "against the minimised automaton; non-trivial = automaton with >= 2 transitions, distinct by usage text",
           "mismatching_records": len(mism), "known_findings_hit": sorted(v.known_hits)}
    if res.coverage:
        cov["actions"] = {k: n for k, n in res.coverage.items() if k.startswith("Equiv.")}
    rcode = v.finish()
    core.write_evidence("C02", tier, "model_checking", cov,
                        ["description distribution is exercised only in the documented shapes (DESIGN.md C02 limits)",
                         "the generator's tree is the grammar (parser conformance is C05)",
                         "TLC's evaluation of the recursive Glushkov operators is trusted"],
                        time.time() - t0, len(v.violations))
    return rcode
