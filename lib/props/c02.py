# C02 - compiled automaton recognises exactly the grammar's language, labels included.
# Decided by TLC: product exploration Meaning (from the generator's tree) x recorded automaton
# (raw and minimised), all four shells.  See DESIGN.md section 7, C02.
import json, time, random
import core, corpus, equiv, gen


def build_corpus(tier, seed):
    rnd = random.Random(seed)
    if tier == "quick":
        cases, total = corpus.exhaustive(4)
        exh_complete = True
        nrand = 150
    else:
        cases, total = corpus.exhaustive(5, limit=16000, rnd=rnd)
        exh_complete = len(cases) == total
        nrand = 1500
    rc = corpus.random_cases(nrand * 4, seed, start_id=len(cases) + 1, shells=gen.SHELLS, depth=4)
    # acyclic definition graphs with shared descendants, definitions in random order
    from props import c08
    dag = []
    chains = []
    for depth in (3, 4, 5, 6):
        names = ["N%d" % i for i in range(depth)]
        defs = [(nm, "", ("seq", [gen.L("w%d" % i), gen.R(names[i + 1])]) if i + 1 < depth else ("alt", [gen.L("foo"), gen.L("bar")])) for i, nm in enumerate(names)]
        chains.append(([("seq", [gen.R(names[0]), gen.L("end")])], defs))
        chains.append(([("seq", [("sub", [gen.L("--k="), gen.R(names[0])]), gen.L("end")])], [(nm, s_, ("alt", [gen.L("v%d" % i), gen.R(names[i + 1])]) if i + 1 < depth else b) for i, (nm, s_, b) in enumerate(defs)]))
    for variants, defs in chains + c08.dag_grammars(rnd, 40 if tier == "quick" else 600):
        for k in range(2):
            ds = list(defs)
            rnd.shuffle(ds)
            c = gen.case(variants, ds, shell=rnd.choice(gen.SHELLS))
            dag.append(corpus.finish(c, len(cases) + len(rc) + len(dag) + 1, origin="dag"))
    # the within-word families of C04 (several expressions of equal / unequal shape, the same items in a different arrangement, ...)
    from props import c04
    fam = []
    for variants in c04.shapes(rnd):
        for sh in gen.SHELLS:
            fam.append(corpus.finish(gen.case(variants, [], shell=sh), len(cases) + len(rc) + len(dag) + len(fam) + 1, origin="family"))
    # a group's description and literals inside it that have their own (the group's goes to the first literal without one)
    from props import c14
    for vs, defs in c14.described_groups():
        for sh in ("fish", "zsh"):
            fam.append(corpus.finish(gen.case([t for _, t in vs], defs, shell=sh), len(cases) + len(rc) + len(dag) + len(fam) + 1, origin="family"))
    return cases + rc + dag + fam, total, exh_complete


def subset_mechanism(ok, tier, corrupt=None):
    """Subset.tla: (i) trace validation - the steps the instrumented dfa_from_regex reported (hook events, feature `verif`) are a
    behaviour of the model, and the model's Final for the recorded pop order is the automaton that left do_minimize, number for
    number; (ii) design level - every pop order of the position systems recorded in (i).  Notes, never verdicts."""
    step = max(1, len(ok) // (300 if tier == "quick" else 3000))
    pick = [r for r in ok if len(r["obs"]["raw"]["tr"]) >= 2][::step]
    rec = core.record("mintrace", [{"id": r["id"], "usage": r["usage"], "shell": r["shell"]} for r in pick])
    cases, usage = [], {}
    for r in rec:
        o = r["obs"]
        if o.get("verdict") != "ok" or not o.get("sc"):
            continue
        for k, seg in enumerate(o["sc"]):
            if seg["end"] > 14 or len(seg["events"]) > 120:
                continue
            c = {f: seg[f] for f in ("end", "first", "follow", "sym", "ninp", "events")}
            c["id"] = len(cases) + 1
            top = k == len(o["sc"]) - 1
            c["hasmin"] = top
            c["mintr"] = [[t["f"], t["i"], t["t"]] for t in o["min"]["tr"]] if top else []
            c["minacc"] = o["min"]["acc"] if top else []
            usage[c["id"]] = r["usage"]
            cases.append(c)
    if corrupt:
        corrupt(cases)
    if not cases:
        return {"traces": 0, "states": 0, "transitions": 0}
    res = core.run_tlc_sharded("SubsetTrace.tla", "SubsetTrace.cfg", cases, shards=8, workers=1, prefix="subsettrace", timeout=3000)
    acc = {x[0] for x in res.tagged("ACCEPTED")}
    finok = {x[0] for x in res.tagged("FINALOK")}
    findiff = sorted({x[0] for x in res.tagged("FINALDIFF")})
    at = {}
    for x in res.tagged("AT"):
        at[x[0]] = max(at.get(x[0], 0), x[1])
    mech = sorted({(x[0], x[1]) for x in res.tagged("MECH")})
    rejected = [c["id"] for c in cases if c["id"] not in acc]
    for i in rejected[:3]:
        core.log("MODEL-DRIFT (not a verdict): the recorded steps of dfa_from_regex for %r are not a behaviour of Subset.tla (matched %d of %d events)" % (
            usage[i].strip(), at.get(i, 0), len(cases[i - 1]["events"])))
    for i in findiff[:3]:
        core.log("MODEL-DRIFT (not a verdict): for %r the automaton that left do_minimize is not the one Subset.tla's Final computes for the recorded pop order" % usage[i].strip())
    out = {"traces": len(cases), "traces_accepted": len(acc), "traces_not_a_behaviour": len(rejected), "trace_events": sum(len(c["events"]) for c in cases),
           "final_automaton_compared": len(finok) + len(findiff), "final_automaton_differs": len(findiff), "rejected_ids": rejected[:10],
           "trace_states": res.distinct, "invariant_reports_on_traces": len(mech)}
    # design level: all pop orders, on the small position systems seen above
    seen, small = set(), []
    for c in cases:
        key = json.dumps([c[f] for f in ("end", "first", "follow", "sym", "ninp")])
        if key in seen or c["end"] > (7 if tier == "quick" else 9):
            continue
        seen.add(key)
        small.append({f: c[f] for f in ("id", "end", "first", "follow", "sym", "ninp")})
    small = small[:120] if tier == "quick" else small[:1200]
    if small:
        res2 = core.run_tlc_sharded("Subset.tla", "Subset.cfg", small, shards=8, workers=2, prefix="subset", timeout=3000)
        finals = {}
        for x in res2.tagged("FINAL"):
            finals.setdefault(x[0], set()).add(x[2])
        bad = sorted({(x[0], x[1]) for x in res2.tagged("MECH")})
        for i, what in bad[:5]:
            core.log("MODEL-PREDICTION (design level, not a verdict): some pop order of the modelled subset construction breaks `%s` on the position system of %r" % (what, usage[i].strip()))
        out.update({"position_systems": len(small), "terminated": len(finals), "states": res2.distinct, "transitions": res2.generated,
                    "invariant_reports": len(bad),
                    "systems_whose_final_numbering_depends_on_the_pop_order": sum(1 for v in finals.values() if len(v) > 1),
                    "note": "every pop order of dfa_from_regex's hash set of unmarked states as modelled in Subset.tla (Dense, Deterministic, Complete, "
                            "Exact, Popped in every state); the state numbers of the final automaton depend on the pop order for some systems, "
                            "so byte-identical output rests on the hash set's iteration order being a function of its content (C10 observes it)"})
    else:
        out.update({"position_systems": 0, "states": 0, "transitions": 0})
    return out


def run(tier):
    t0 = time.time()
    seed = core.seed()
    core.build(need_bin=False)
    cases, total, exh_complete = build_corpus(tier, seed)
    rec = core.record("compile", cases)
    ok = [r for r in rec if r["obs"]["verdict"] == "ok"]
    res, mism, validated = equiv.run(ok, ["spec-raw", "spec-min"], shards=12 if tier == "thorough" else 8,
                                     coverage=(tier == "thorough"))
    v = core.Verdict("C02")
    byid = {r["id"]: r for r in rec}
    for (cid, mode), d in sorted(mism.items()):
        r = byid[cid]
        sig = equiv.classify(d)
        what = "%s [%s] after `%s`: spec-only %s impl-only %s acc %s/%s" % (
            r["usage"].strip().replace("\n", " "), r["shell"], equiv.fmt_hist(d["hist"]),
            json.dumps(d["left"]), json.dumps(d["right"]), d["lacc"], d["racc"])
        v.mismatch(sig, what, {"usage": r["usage"], "shell": r["shell"], "mode": mode, "hist": d["hist"],
                               "spec_only": d["left"], "impl_only": d["right"]})
    mech = subset_mechanism(ok, tier)
    nontrivial = {r["usage"] for r in ok if len(r["obs"]["raw"]["tr"]) >= 2}
    if len(validated) < 2 * len(ok):
        raise core.ToolError("vacuity: %d of %d records validated" % (len(validated), 2 * len(ok)))
    samples = [{"usage": r["usage"], "shell": r["shell"], "raw_states": len({t["f"] for t in r["obs"]["raw"]["tr"]} | {t["t"] for t in r["obs"]["raw"]["tr"]}),
                "within_word_automata": len(r["obs"]["rawsubs"])} for r in ok[:: max(1, len(ok) // 5)][:5]]
    cov = {"states": res.distinct + mech["states"] + mech.get("trace_states", 0), "transitions": res.generated + mech["transitions"],
           "traces_validated_against_impl": len(validated), "mechanism_model": mech,
           "samples": samples, "programs": len(ok), "grammars_generated": len(cases),
           "rejected_by_complgen": len(rec) - len(ok),
           "exhaustive": exh_complete, "exhaustive_trees_total": total,
           "distinct_nontrivial": len(nontrivial), "evaluations": len(validated),
           "rule": "every normal-form expression tree with <= N nodes over the vocabulary {a, ab, b \"dl\", <X> defined, <U>, <_>, {{{cmd}}}} "
                   "(N=4 quick, N=5 thorough, sampled to 16000 when larger) + seeded random grammars with 0-4 definitions, shell-specific "
                   "definitions and PATH/DIRECTORY, x 4 shells; each accepted grammar is one complete product exploration against the raw and "
                   "against the minimised automaton; non-trivial = automaton with >= 2 transitions, distinct by usage text",
           "mismatching_records": len(mism), "known_findings_hit": sorted(v.known_hits)}
    if res.coverage:
        cov["actions"] = {k: n for k, n in res.coverage.items() if k.startswith("Equiv.")}
    rcode = v.finish()
    core.write_evidence("C02", tier, "model_checking", cov,
                        ["description distribution is exercised only in the documented shapes (DESIGN.md C02 limits)",
                         "the generator's tree is the grammar (parser conformance is C05)",
                         "TLC's evaluation of the recursive Glushkov operators is trusted"],
                        time.time() - t0, len(v.violations))
    return rcode
