# C01 - bash completions produced by the emitted script equal the grammar's meaning.
# spec -> impl: Walk.tla enumerates, per grammar, every reachable position set of the word-level meaning with
# a shortest word sequence and the typed prefixes to try; the real bash answers; impl -> spec: BashCheck.tla
# validates every recorded (reply, rc) against Words.tla.
import json, time, random
import core, corpus, bashflow, bashdrv

KINDS = ("rc", "reply")


def build_corpus(tier, seed):
    rnd = random.Random(seed)
    if tier == "quick":
        rc = corpus.bash_random_cases(60, seed, bashdrv.PROBE_CLASSES)
        ex, total = corpus.bash_exhaustive(3, bashdrv.PROBE_CLASSES, start_id=100000)
        budgets = (40, 8)
    else:
        rc = corpus.bash_random_cases(450, seed, bashdrv.PROBE_CLASSES, depth=5)
        ex, total = corpus.bash_exhaustive(4, bashdrv.PROBE_CLASSES, start_id=100000, limit=1500, rnd=rnd)
        budgets = (50, 8)
    return rc + ex, total, budgets


def run_flow(prop, cases, budgets, kinds, tier, seed, depth=4, rule="", assumptions=(), extra_probes=None, rich=False, scope=None):
    t0 = time.time()
    rnd = random.Random(seed)
    rec = core.record("compile", cases)
    ok = [c for c, r in zip(cases, rec) if r["obs"]["verdict"] == "ok"]
    ok = bashflow.emit_scripts(ok)
    res_w, reps = bashflow.walk(ok, depth)
    qb = {cid: bashflow.make_queries(r, budget=budgets[0] if cid < 100000 else budgets[1], rnd=rnd, rich=rich) for cid, r in reps.items()}
    records = bashflow.execute(ok, qb, extra_probes=extra_probes)
    res_v, mism, nval, nskip = bashflow.validate(records)
    byid = {r["id"]: r for r in records}
    v = core.Verdict(prop)
    nfail = 0
    nout = 0
    for d in mism:
        r = byid[d["id"]]
        q = r["_raw"][d["qi"] - 1]
        for k in sorted(d["failed"]):
            if k not in kinds:
                continue
            if scope is not None and not scope(d, k):
                nout += 1
                continue
            nfail += 1
            sig = bashflow.signature(d, k)
            what = "%s | line: %s [wb %s] -> rc %d reply %s calls %s; expected rc %d candidates %s (%s)" % (
                r["usage"].strip().replace("\n", " "), " ".join(["cmd"] + q["words"] + [q["prefix"] + "^"]), q["wb"], q["rc"], q["reply"],
                [(c["probe"], c["a1"], c["a2"]) for c in q["calls"]], d["exprc"], sorted(bashdrv.uncp(x) for x in d["predicted"]), k)
            v.mismatch(sig, what, {"usage": r["usage"], "words": q["words"], "prefix": q["prefix"], "wb": q["wb"],
                                   "observed": {"rc": q["rc"], "reply": q["reply"], "calls": q["calls"]},
                                   "expected": {"rc": d["exprc"], "candidates": [bashdrv.uncp(x) for x in d["predicted"]],
                                                "required_calls": d["required"]}, "aspect": k})
    nq = sum(len(r["queries"]) for r in records)
    if nval + nskip < nq or nval == 0:
        raise core.ToolError("vacuity: %d validated + %d skipped of %d recorded completions" % (nval, nskip, nq))
    nonempty = sum(1 for r in records for q in r["_raw"] if q["reply"])
    if nonempty < 10:
        raise core.ToolError("vacuity: only %d completions with a non-empty reply" % nonempty)
    samples = []
    for r in records[:: max(1, len(records) // 4)][:4]:
        q = r["_raw"][min(3, len(r["_raw"]) - 1)]
        samples.append({"usage": r["usage"], "line": " ".join(["cmd"] + q["words"] + [q["prefix"] + "^"]), "wb": q["wb"], "rc": q["rc"], "reply": q["reply"],
                        "calls": q["calls"]})
    distinct = {(r["usage"], tuple(q["words"]), q["prefix"], q["wb"]) for r in records for q in r["_raw"] if q["reply"] or q["rc"] != 0}
    cov = {"states": res_w.distinct + res_v.distinct, "transitions": res_w.generated + res_v.generated,
           "traces_validated_against_impl": nval, "skipped_open_region": nskip, "samples": samples,
           "programs": len(records), "evaluations": nq, "distinct_nontrivial": len(distinct),
           "spec_states_replayed": sum(len(x) for x in reps.values()),
           "rule": rule + " non-trivial = distinct (grammar, command line, COMP_WORDBREAKS) with a non-empty reply or a non-zero status",
           "mismatching_aspects": nfail, "mismatches_outside_this_property": nout, "known_findings_hit": sorted(v.known_hits)}
    rc = v.finish()
    core.write_evidence(prop, tier, "model_checking", cov, list(assumptions) + [
        "readline is not run: COMP_WORDS/COMP_CWORD are set directly and _get_comp_words_by_ref is a 3-line stub",
        "completion-ignore-case is off; commands are probes with fixed output",
        "process creation does not scale with cores in this sandbox (~40 completions/s in total), which bounds the number of executions"],
        time.time() - t0, len(v.violations))
    return rc


def run(tier):
    core.build()
    seed = core.seed()
    cases, total, budgets = build_corpus(tier, seed)
    return run_flow("C01", cases, budgets, KINDS, tier, seed,
                    rule="seeded random grammars (prefix-free literal pool, probe commands with pairwise distinct outputs, 0-4 definitions incl. @bash) "
                         "and every tree with <= 3 nodes (4 in thorough, sampled); per grammar TLC enumerates every reachable position set of the "
                         "word-level meaning (depth <= 4 words) and the prefixes to type; a budgeted round-robin sample of them is executed in bash "
                         "with COMP_WORDBREAKS default and empty;")
