# C01 - bash completions produced by the emitted script equal the grammar's meaning.
# spec -> impl: Walk.tla enumerates, per grammar, every reachable position set of the word-level meaning with
# a shortest word sequence and the typed prefixes to try; the real bash answers; impl -> spec: BashCheck.tla
# validates every recorded (reply, rc) against Words.tla.
import json, time, random
import core, corpus, bashflow, bashdrv, gen

KINDS = ("rc", "reply")


def families():
    """hand-listed shapes that need something specific: the same word-break character twice in a word, same-shaped within-word
    expressions whose `||` levels sit at different literal indexes, a within-word expression in an earlier `||` branch than plain
    literals, commands inside words behind definitions"""
    from gen import L, R, C
    w = lambda pre, vals: ("sub", [L(pre), ("alt", [L(v) for v in vals])])
    fbw = lambda pre, vals: ("sub", [L(pre), ("fb", [L(v) for v in vals])])
    out = [
        ([("alt", [("sub", [L("--env="), ("alt", [w("PATH=", ["bin", "sbin"]), w("HOME=", ["root", "user"])])]), L("key=val=one"), L("key=val=two"), L("plain")])], []),
        ([("seq", [("alt", [L("a:b:c"), L("a:b:d"), w("x:y:", ["1", "2"])]), L("end")])], []),
        ([("seq", [("alt", [fbw("--a=", ["foo", "bar"]), fbw("--b=", ["baz", "qux"])]), L("end")])], []),
        ([("alt", [fbw("--aa=", ["foo", "ba"]), fbw("--bb=", ["ba", "foo"])])], []),
        ([("fb", [w("--color=", ["always", "never"]), L("plain"), L("mono")])], []),
        ([("seq", [L("sub"), ("fb", [w("--level=", ["1", "2", "3"]), L("quiet")]), L("end")])], []),
        ([("many", R("OPT"))], [("OPT", "", ("alt", [("sub", [L("--x="), R("V")]), L("-y")])), ("V", "", ("alt", [C('__probe c1 p1 "$@"'), L("lit")]))]),
        ([("seq", [("sub", [L("--opt="), ("fb", [C('__probe c1 p1 "$@"'), C('__probe c2 p2 "$@"')])]), L("end")])], []),
        ([("seq", [L("one"), ("fb", [R("U"), L("--help")])]), ("seq", [L("two"), R("U")])], [("U", "bash", C('__probe c1 p7 "$@"')), ("U", "", C('__probe c2 p2 "$@"'))]),
        ([("seq", [L("a"), ("opt", L("b")), L("c")])], []),
        ([("seq", [R("A"), L("end")])], [("A", "", ("seq", [L("x"), R("B")])), ("B", "", ("seq", [L("y"), R("Cc")])), ("Cc", "", ("seq", [L("z"), R("D")])),
                                            ("D", "", ("alt", [L("foo"), L("bar")]))]),
        ([("fb", [("alt", [L("start"), L("stop")]), w("--level=", ["low", "high"])])], []),
        ([("seq", [("sub", [L("--level="), ("opt", L("no-")), L("strict")]), L("end")])], []),
    ]
    return out


def build_corpus(tier, seed):
    cases, total, budgets = build_corpus_random(tier, seed)
    fam = []
    for i, (variants, defs) in enumerate(families()):
        c = gen.case(variants, defs, shell="bash")
        fam.append(corpus.annotate_bash(corpus.finish(c, 50000 + i, origin="family"), bashdrv.PROBE_CLASSES))
    return fam + cases, total, budgets


def build_corpus_random(tier, seed):
    rnd = random.Random(seed)
    if tier == "quick":
        rc = corpus.bash_random_cases(60, seed, bashdrv.PROBE_CLASSES)
        ex, total = corpus.bash_exhaustive(3, bashdrv.PROBE_CLASSES, start_id=100000)
        budgets = (40, 8)
    else:
        rc = corpus.bash_random_cases(450, seed, bashdrv.PROBE_CLASSES, depth=5)
        ex, total = corpus.bash_exhaustive(4, bashdrv.PROBE_CLASSES, start_id=100000, limit=1500, rnd=rnd)
        budgets = (50, 8)
    return rc + ex, total, budgets


def run_flow(prop, cases, budgets, kinds, tier, seed, depth=4, rule="", assumptions=(), extra_probes=None, rich=False, scope=None, vm_budget=0):
    t0 = time.time()
    rnd = random.Random(seed)
    rec = core.record("compile", cases)
    ok = [c for c, r in zip(cases, rec) if r["obs"]["verdict"] == "ok"]
    ok = bashflow.emit_scripts(ok)
    res_w, reps = bashflow.walk(ok, depth)
    qb = {cid: bashflow.make_queries(r, budget=budgets[0] if cid < 100000 else budgets[1], rnd=rnd, rich=rich or 50000 <= cid < 100000) for cid, r in reps.items()}
    vmstats = {}
    if vm_budget:
        # the emitted program as a model (BashVM.tla) over the tables read back from each script: design-level exploration of EVERY
        # command line to a depth against the word-level meaning; its disagreements are predictions, replayed in the real bash below
        import vm
        for c in ok:
            c["vm"] = vm.tables(c["_script"], dict(bashdrv.PROBE_CLASSES, **(extra_probes or {})))
        res_x, pred = vm.explore([c for c in ok if c.get("vm")], depth=2 if tier == "quick" else 3)
        npred = sum(len(x) for x in pred.values())
        # replay budget: situations the known findings do not explain first (a matched word, the cursor word alone, a plainly
        # foreign word), then the others; spread over grammars
        PRIORITY = {"matched": 0, "cursor_only": 0, "fail_other": 0, "matched_at_command_point": 1, "value_with_longer_sibling": 2,
                    "fail_word_incomplete": 3, "fail_at_command_point": 3}
        added = 0
        tags = {}
        pool = []
        for cid, lines in pred.items():
            have = {(tuple(q["words"]), q["prefix"]) for q in qb.get(cid, [])}
            uniq = {}
            for w, x, tag in lines:
                if (tuple(w), x) not in have:
                    uniq[(tuple(w), x)] = tag
            items = sorted(uniq.items(), key=lambda kv: (PRIORITY.get(kv[1], 1), len(kv[0][0]), kv[0]))
            for rank, ((w, x), tag) in enumerate(items):
                pool.append((PRIORITY.get(tag, 1), rank, rnd.random(), cid, w, x, tag))
                tags[tag] = tags.get(tag, 0) + 1
        pool.sort()
        for pr, rank, _, cid, w, x, tag in pool[:vm_budget]:
            qb.setdefault(cid, []).append({"words": list(w), "prefix": x, "wb": "d", "_predicted": True})
            added += 1
        vmstats = {"design_level_states": res_x.distinct if res_x else 0, "design_level_transitions": res_x.generated if res_x else 0,
                   "predictions": npred, "predictions_by_situation": tags, "predictions_replayed_in_bash": added, "grammars_with_predictions": len(pred)}
    records = bashflow.execute(ok, qb, extra_probes=extra_probes)
    if vm_budget:
        vmof = {c["id"]: c.get("vm") for c in ok}
        for r in records:
            r["vm"] = vmof.get(r["id"])
        res_c, drift, nconf, nunsure = vm.conformance(records)
        vmstats.update(conformance_checked=nconf + nunsure + len(drift), model_drift=len(drift), order_dependent=nunsure,
                       conformance_states=res_c.distinct if res_c else 0)
        for d in drift[:3]:
            core.log("MODEL-DRIFT (BashVM.tla misrepresents the script; not a verdict): case %s query %s model %s real %s" % (
                d["id"], d["qi"], json.dumps(d["model"])[:300], json.dumps(d["real"])[:200]))
        # step level: the script's own variable changes (bash DEBUG trap, script unchanged) must be steps of BashStep.tla
        import vmtrace
        scriptof = {c["id"]: c["_script"] for c in ok}
        for r in records:
            r["_script"] = scriptof.get(r["id"])
        vmstats.update(vmtrace.validate(records, 300 if tier == "quick" else 4000, rnd, extra_probes))
        for r in records:
            r.pop("vm", None)
            r.pop("_script", None)
    res_v, mism, nval, nskip = bashflow.validate(records)
    byid = {r["id"]: r for r in records}
    v = core.Verdict(prop)
    nfail = 0
    nout = 0
    for d in mism:
        r = byid[d["id"]]
        q = r["_raw"][d["qi"] - 1]
        for k in sorted(d["failed"]):
            if k not in kinds:
                continue
            if scope is not None and not scope(d, k):
                nout += 1
                continue
            nfail += 1
            sig = bashflow.signature(d, k)
            what = "%s | line: %s [wb %s] -> rc %d reply %s calls %s; expected rc %d candidates %s (%s)" % (
                r["usage"].strip().replace("\n", " "), " ".join(["cmd"] + q["words"] + [q["prefix"] + "^"]), q["wb"], q["rc"], q["reply"],
                [(c["probe"], c["a1"], c["a2"]) for c in q["calls"]], d["exprc"], sorted(bashdrv.uncp(x) for x in d["predicted"]), k)
            v.mismatch(sig, what, {"usage": r["usage"], "words": q["words"], "prefix": q["prefix"], "wb": q["wb"],
                                   "observed": {"rc": q["rc"], "reply": q["reply"], "calls": q["calls"]},
                                   "expected": {"rc": d["exprc"], "candidates": [bashdrv.uncp(x) for x in d["predicted"]],
                                                "required_calls": d["required"]}, "aspect": k})
    nq = sum(len(r["queries"]) for r in records)
    if nval + nskip < nq or nval == 0:
        raise core.ToolError("vacuity: %d validated + %d skipped of %d recorded completions" % (nval, nskip, nq))
    nonempty = sum(1 for r in records for q in r["_raw"] if q["reply"])
    if nonempty < 10:
        raise core.ToolError("vacuity: only %d completions with a non-empty reply" % nonempty)
    samples = []
    for r in records[:: max(1, len(records) // 4)][:4]:
        q = r["_raw"][min(3, len(r["_raw"]) - 1)]
        samples.append({"usage": r["usage"], "line": " ".join(["cmd"] + q["words"] + [q["prefix"] + "^"]), "wb": q["wb"], "rc": q["rc"], "reply": q["reply"],
                        "calls": q["calls"]})
    distinct = {(r["usage"], tuple(q["words"]), q["prefix"], q["wb"]) for r in records for q in r["_raw"] if q["reply"] or q["rc"] != 0}
    cov = {"states": res_w.distinct + res_v.distinct + vmstats.get("design_level_states", 0) + vmstats.get("conformance_states", 0),
           "transitions": res_w.generated + res_v.generated + vmstats.get("design_level_transitions", 0), "emitted_program_model": vmstats,
           "traces_validated_against_impl": nval, "skipped_open_region": nskip, "samples": samples,
           "programs": len(records), "evaluations": nq, "distinct_nontrivial": len(distinct),
           "spec_states_replayed": sum(len(x) for x in reps.values()),
           "rule": rule + " non-trivial = distinct (grammar, command line, COMP_WORDBREAKS) with a non-empty reply or a non-zero status",
           "mismatching_aspects": nfail, "mismatches_outside_this_property": nout, "known_findings_hit": sorted(v.known_hits)}
    rc = v.finish()
    core.write_evidence(prop, tier, "model_checking", cov, list(assumptions) + [
        "readline is not run: COMP_WORDS/COMP_CWORD are set directly and _get_comp_words_by_ref is a 3-line stub",
        "completion-ignore-case is off; commands are probes with fixed output",
        "process creation does not scale with cores in this sandbox (~40 completions/s in total), which bounds the number of executions"],
        time.time() - t0, len(v.violations))
    return rc


def run(tier):
    core.build()
    seed = core.seed()
    cases, total, budgets = build_corpus(tier, seed)
    return run_flow("C01", cases, budgets, KINDS, tier, seed, vm_budget=500 if tier == "quick" else 6000,
                    rule="seeded random grammars (prefix-free literal pool, probe commands with pairwise distinct outputs, 0-4 definitions incl. @bash) "
                         "and every tree with <= 3 nodes (4 in thorough, sampled); per grammar TLC enumerates every reachable position set of the "
                         "word-level meaning (depth <= 4 words) and the prefixes to type; a budgeted round-robin sample of them is executed in bash "
                         "with COMP_WORDBREAKS default and empty;")
