# C07 - text taken from the grammar reaches the shell verbatim and inert.
# Strings over the characters the grammar syntax admits (quotes, backslashes, $, backticks, !, *, ?, ~, #, &, brackets, braces,
# ...; descriptions also blanks, non-ASCII and typographic quotes): all strings up to a length bound, packed 24 per grammar
# as top-level literals (with descriptions) and as values inside a word.  For each of the four emitted scripts the string
# constants found in the table declarations (lib/readers.py) are decoded by TLC with Quote.tla's model of that shell's
# double-quote rules and compared with the grammar's texts (QuoteCheck.tla).  bash additionally by execution: the script
# must pass `bash -n`, offer the literals character for character and match a literal only by the identical word
# (TLC-validated against Words.tla through BashCheck.tla, with glob-confusable words as foreign words).
import itertools, json, random, subprocess, tempfile, os, time
import core, corpus, gen, readers, bashflow, bashdrv
from gen import L, R, C

LIT_ALPHA = list('a"\\$`!*?~#&[]{}(\'%;|<>=,')
DESCR_EXTRA = [" ", "é", "“", "\t"]
PACK = 24


def strings(alpha, maxlen, rnd, sample3=None):
    out = []
    for n in range(1, maxlen + 1):
        allp = ["".join(t) for t in itertools.product(alpha, repeat=n)]
        if n >= 3 and sample3 is not None and len(allp) > sample3:
            allp = rnd.sample(allp, sample3)
        out += allp
    return out


def build_corpus(tier, seed):
    rnd = random.Random(seed)
    lits = [s for s in strings(LIT_ALPHA, 3, rnd, 900 if tier == "quick" else None) if not s.startswith("#")]
    if tier == "thorough":
        lits += [s for s in strings(LIT_ALPHA, 4, rnd, 6000)[len(lits):] if not s.startswith("#")]
    descrs = strings(LIT_ALPHA + DESCR_EXTRA, 3, rnd, 900 if tier == "quick" else 8000)
    rnd.shuffle(descrs)
    cases = []
    for i in range(0, len(lits), PACK):
        chunk = lits[i:i + PACK]
        ds = [descrs[(i + j) % len(descrs)] for j in range(len(chunk))]
        top = ("alt", [L(t, d) for t, d in zip(chunk, ds)]) if len(chunk) > 1 else L(chunk[0], ds[0])
        word = ("sub", [L("--w="), ("alt", [L(t) for t in chunk])]) if len(chunk) > 1 else ("sub", [L("--w="), ("opt", L(chunk[0]))])
        tree = ("seq", [("alt", [top, word]), L("end")])
        for sh in gen.SHELLS:
            c = gen.case([tree], [], shell=sh)
            corpus.finish(c, len(cases) + 1, origin="pack", lits=chunk + ["--w=", "end"], descrs=ds)
            cases.append(c)
    return cases, len(lits), len(descrs)


def glob_confusions(lit):
    """words that a pattern reading of the literal would match although they are not the literal"""
    out = set()
    for i, ch in enumerate(lit):
        if ch == "*":
            out.add(lit[:i] + "xy" + lit[i + 1:])
            out.add(lit[:i] + lit[i + 1:])
        elif ch == "?":
            out.add(lit[:i] + "x" + lit[i + 1:])
        elif ch == "[":
            j = lit.find("]", i + 2)
            if j > 0:
                out.add(lit[:i] + lit[i + 1] + lit[j + 1:])
        elif ch == "\\" and i + 1 < len(lit):
            out.add(lit[:i] + lit[i + 1:])
    out.discard(lit)
    return sorted(x for x in out if x)


def run(tier):
    t0 = time.time()
    core.build()
    seed = core.seed()
    rnd = random.Random(seed)
    cases, nlits, ndescr = build_corpus(tier, seed)
    outs = core.emit_many(cases)
    v = core.Verdict("C07")
    recs = []
    nconst = 0
    for c, (rc, out, err, to) in zip(cases, outs):
        if rc != 0:
            v.mismatch({"kind": "not_compiled", "shell": c["shell"]}, "%r [%s] exit %s: %s" % (c["usage"][:200], c["shell"], rc, err[:200]), {"usage": c["usage"]})
            continue
        text = out.decode("utf-8", "replace")
        c["_script"] = text
        consts = readers.string_constants(text, c["shell"])
        nconst += len(consts)
        recs.append({"id": c["id"], "shell": c["shell"], "withdescr": c["shell"] != "bash",
                     "consts": [{"raw": [ord(ch) for ch in k["raw"]], "role": k["role"]} for k in consts],
                     "lits": [[ord(ch) for ch in s] for s in c["lits"]], "descrs": [[ord(ch) for ch in s] for s in c["descrs"]]})
    res = core.run_tlc_sharded("QuoteCheck.tla", "QuoteCheck.cfg", recs, shards=12, workers=2, prefix="quote", timeout=3000)
    byid = {c["id"]: c for c in cases}

    def classes(s):
        cl = set()
        for ch in s:
            cl.add({"\\": "backslash", '"': "dquote", "$": "dollar", "`": "backtick", "“": "smartquote"}.get(ch, "other"))
        return sorted(cl - {"other"}) or ["other"]
    for m in res.tagged("MISMATCH"):
        d = json.loads(m[0])
        c = byid[d["id"]]
        seen = set()
        for p in d["problems"]:
            txt = "".join(chr(x) for x in p["text"])
            raw = "".join(chr(x) for x in p["raw"])
            sig = {"kind": "constant_" + p["what"] if p["what"] in ("unterminated", "expands", "trailing", "control_escape", "not_quoted") else p["what"],
                   "shell": c["shell"], "role": p["role"], "chars": classes(raw or txt)}
            key = json.dumps(sig, sort_keys=True)
            if key in seen:
                continue
            seen.add(key)
            v.mismatch(sig, "[%s] %s: constant %r reads as %r (%s)" % (c["shell"], p["role"], raw, txt, p["what"]),
                       {"usage": c["usage"], "shell": c["shell"], "problem": p["what"], "raw": raw, "text": txt})
    nval = len(res.tagged("VALIDATED"))
    if nval < len(recs) or nconst < len(recs):
        raise core.ToolError("vacuity: %d of %d scripts validated, %d constants" % (nval, len(recs), nconst))
    # bash by execution
    bcases = [c for c in cases if c["shell"] == "bash" and "_script" in c]
    bcases = bcases[:: max(1, len(bcases) // (10 if tier == "quick" else 80))]
    nsyntax = 0
    for c in bcases:
        with tempfile.NamedTemporaryFile("w", suffix=".bash", dir=os.path.join(core.WORK, "tmp"), delete=False) as f:
            f.write(c["_script"])
        p = subprocess.run(["bash", "-n", f.name], capture_output=True, text=True)
        os.unlink(f.name)
        nsyntax += 1
        if p.returncode != 0:
            v.mismatch({"kind": "bash_syntax", "chars": classes("".join(c["lits"]))}, "bash -n rejects the script of %r: %s" % (c["usage"][:300], p.stderr[:200]),
                       {"usage": c["usage"], "stderr": p.stderr[:500]})
    good = [corpus.annotate_bash(c, bashdrv.PROBE_CLASSES) for c in bcases]
    qb = {}
    for c in good:
        qs = [{"words": [], "prefix": "", "wb": "e"}, {"words": [], "prefix": "--w=", "wb": "e"}]
        for lit in c["lits"][:PACK][:: 3]:
            qs.append({"words": [lit], "prefix": "", "wb": "e"})
            qs.append({"words": ["--w=" + lit], "prefix": "", "wb": "e"})
            qs.append({"words": [], "prefix": lit[:1], "wb": "e"})
            for w in glob_confusions(lit)[:2]:
                qs.append({"words": [w], "prefix": "", "wb": "e"})
                qs.append({"words": ["--w=" + w], "prefix": "", "wb": "e"})
        qb[c["id"]] = qs
    records = bashflow.execute(good, qb)
    res_b, mism, nvalb, nskip = bashflow.validate(records, shards=4)
    rid = {r["id"]: r for r in records}
    for d in mism:
        r = rid[d["id"]]
        q = r["_raw"][d["qi"] - 1]
        if "word_value_with_longer_sibling" in d["classes"] or d["cursor"] == "word_value_with_longer_sibling":
            continue        # C12's subject (a value that is a prefix of another value of the same word)
        for k in sorted(d["failed"]):
            if k not in ("rc", "reply"):
                continue
            inword =any(w.startswith("--w=") for w in q["words"]) or q["prefix"].startswith("--w=")
            sig = {"kind": "bash_" + k, "where": "inside_word" if inword else "top_level", "expected_rc": d["exprc"], "chars": classes("".join(q["words"]) + q["prefix"])}
            v.mismatch(sig, "bash: line cmd %s %s^ -> rc %d reply %s; expected rc %d candidates %s | grammar %r" % (
                " ".join(q["words"]), q["prefix"], q["rc"], q["reply"][:6], d["exprc"], sorted(bashdrv.uncp(x) for x in d["predicted"])[:6], r["usage"][:200]),
                {"usage": r["usage"], "words": q["words"], "prefix": q["prefix"], "observed": {"rc": q["rc"], "reply": q["reply"]}})
    samples = [{"shell": c["shell"], "usage": c["usage"][:300], "constants_read": len(r["consts"])} for c, r in list(zip([byid[x["id"]] for x in recs], recs))[:: max(1, len(recs) // 4)][:4]]
    cov = {"states": res.distinct + res_b.distinct, "transitions": res.generated + res_b.generated, "traces_validated_against_impl": nval + nvalb,
           "samples": samples, "programs": len(cases), "evaluations": nconst + nvalb, "distinct_nontrivial": nlits + ndescr, "constants_decoded": nconst,
           "literal_strings": nlits, "description_strings": ndescr, "bash_syntax_checks": nsyntax, "bash_completions": nvalb, "bash_skipped_open_region": nskip,
           "exhaustive": tier == "thorough",
           "rule": "all strings of length <= 2 and a sample (quick) / all (thorough) of length 3 over %d literal characters; descriptions over %d characters; "
                   "24 literals per grammar, each as a described top-level literal and as a value inside a word, x 4 emitters; non-trivial = distinct strings" % (
                       len(LIT_ALPHA), len(LIT_ALPHA) + len(DESCR_EXTRA)),
           "known_findings_hit": sorted(v.known_hits)}
    rc = v.finish()
    core.write_evidence("C07", tier, "model_checking", cov,
                        ["the fish, zsh and PowerShell decoders are a reading of the shells' manuals, not the shells (none is installed)",
                         "constants are located in the script by lib/readers.py (table declarations); their raw text is what TLC decodes",
                         "bash is additionally executed: `bash -n`, candidates, and matching of glob-confusable words"],
                        time.time() - t0, len(v.violations))
    return rc
