# C13 - diagnostics point at the construct they complain about.
# Inputs: small grammars over a literal pool that needs backslash escapes, each with one planted located mistake or warning
# (undefined / unused nonterminal, unused specialisation, duplicate definition, unknown shell, varying / invalid command name,
# non-command specialisation, cycle, spaces inside a word, placeholder followed by something, unparsable statement), printed
# under TLC-chosen layouts (LayoutGen.tla: every single deviating boundary from the blank menu - spaces, tabs, newlines,
# comments, form feed - sampled, plus random multi-deviation layouts).  Observed: located lines on stderr of the command.
# Decided by TLC (DiagCheck.tla): each located line starts a token of the right sort, the echoed line is that line.
import json, random, time
import core, corpus, gen, plant, cli, layout, diag
from gen import L, R, C

LITS = ["a|b", "x.y", "(p)", 'q"r', "--opt=", "foo", "bar", "k\\l", "<t>", "-v"]
LOCATED = ["undefined", "unused", "unused_spec", "duplicate_def", "unknown_shell", "varying_names", "invalid_name", "noncommand_spec",
           "cycle", "subword_spaces", "unbounded", "parse"]


def make_case(cases, vs, ds, shell, planted, rnd, extra_tok=None, **kw):
    toks, ast = gen.statements_tokens(vs, ds)
    badstmt = -1
    if planted == "parse":
        layout.annotate(toks)
        nst = max(t["stmt"] for t in toks) + 1
        s = rnd.randrange(nst)
        idx = [i for i, t in enumerate(toks) if t["stmt"] == s]
        pos = rnd.choice(idx[1:]) if len(idx) > 1 else idx[0] + 1
        toks.insert(pos, {"s": rnd.choice([")", "]", ">", "|"]) if toks[pos]["kind"] != "bar" else ")", "pre": "opt", "kind": "stray", "node": None})
        if toks[pos]["s"] == "|" and toks[pos - 1]["kind"] in ("cmdname", "assign", "lparen", "lbrack", "bar", "bar2"):
            toks[pos]["s"] = ")"
        if toks[pos]["s"] == "|":
            # `a | | b` : an empty alternative; keep only if something follows, else use a closer
            toks[pos]["s"] = ")"
        badstmt = s
    layout.annotate(toks)
    c = {"id": len(cases) + 1, "shell": shell, "ast": ast, "planted": planted, "badstmt": badstmt, "expect_ok": False,
         "toks": layout.tok_records(toks), "_toks": toks, "opt": {"dest": "file", "destname": "_cmd" if shell == "zsh" else "out.script"}}
    for v in c["ast"]["variants"]:
        v["namecp"] = [ord(x) for x in v["name"]]
    c.update(kw)
    cases.append(c)
    return c


def base_grammar(rnd):
    for _ in range(200):
        variants, defs = corpus.random_grammar(rnd, depth=rnd.choice([2, 3]), with_probes=False, p_spec=0.3, lits=LITS, p_descr=0.2,
                                               allow_builtin_names=False)
        if corpus.clean(variants, defs) and corpus.leaves_count(variants, defs) <= 24:
            return variants, defs
    return [L("foo")], []


def build_corpus(tier, seed):
    rnd = random.Random(seed)
    nbase = 14 if tier == "quick" else 120
    protos = []
    for b in range(nbase):
        variants, defs = base_grammar(rnd)
        for cls in LOCATED:
            sh = rnd.choice(gen.SHELLS)
            vs, ds = [("cmd", v) for v in variants], list(defs)
            try:
                if cls == "undefined":
                    host = rnd.randrange(len(vs))
                    frag = rnd.choice([R("UNDEF"), ("sub", [L("--u="), R("UNDEF")]), ("seq", [L("a|b"), R("UNDEF")]), ("opt", R("UNDEF"))])
                    vs[host] = (vs[host][0], plant.embed(vs[host][1], frag, rnd, mode=rnd.choice(["seq", "alt", "opt"])))
                elif cls == "unused":
                    ds.insert(rnd.randint(0, len(ds)), ("SPARE", "", rnd.choice([L("x.y"), ("alt", [L("a|b"), L("foo")]), C("echo s")])))
                elif cls == "unused_spec":
                    ds.insert(rnd.randint(0, len(ds)), ("SPARE", sh, C("echo spare")))
                elif cls == "parse":
                    pass
                else:
                    vs, ds, _ = plant.plant([v for _, v in vs], ds, cls, rnd, sh)
            except Exception:
                continue
            protos.append((vs, ds, sh, cls))
    # canonical layout cases first (they are the layout generator's input)
    cases = []
    for vs, ds, sh, cls in protos:
        make_case(cases, vs, ds, sh, cls, random.Random(len(cases)))
    lay_in = [{"id": c["id"], "toks": c["toks"]} for c in cases]
    singles, res1 = layout.generate(lay_in, mode="singles", limit_per_case=8 if tier == "quick" else 30, rnd=rnd)
    multi, res2 = layout.generate(lay_in, mode="sim", maxdev=10, simulate=len(lay_in) * (2 if tier == "quick" else 8))
    out = []
    for c in cases:
        d = layout.default_ids(c["_toks"])
        for bl in [d] + singles.get(c["id"], []) + multi.get(c["id"], []):
            x = dict(c)
            x["id"] = len(out) + 1
            x["blanks"] = bl
            x["usage"] = layout.render(c["_toks"], bl)
            x["proto"] = c["id"]
            out.append(x)
    return out, len(cases), res1, res2


def run(tier, prop="C13", aspects=("location", "snippet")):
    t0 = time.time()
    core.build()
    seed = core.seed()
    cases, nproto, res1, res2 = build_corpus(tier, seed)
    return decide(prop, tier, cases, aspects, t0, seed, extra_states=(res1.distinct + res2.distinct, res1.generated + res2.generated),
                  rule="%d grammars (seeded, literal pool with characters that need backslash escapes) x one planted located mistake / warning "
                       "x layouts chosen by TLC (canonical, sampled single deviations over a 10-entry blank menu, random multi-deviation layouts); "
                       "non-trivial = run that printed at least one located line, distinct by file text" % nproto)


def decide(prop, tier, cases, aspects, t0, seed, extra_states=(0, 0), rule="", assumptions=()):
    obs, stats = cli.observe(cases, sample=40 if tier == "quick" else 200, seed=seed, alarming=lambda o: o.get("exit") not in (0, 1))
    for c, o in zip(cases, obs):
        ds = diag.parse_stderr(o.get("stderr", ""), c["usage"])
        c["obs"] = {"exit": o["exit"], "diags": [{k: d[k] for k in ("cls", "sev", "line", "col", "snip")} for d in ds]}
        c["_obs"] = o
    strip = [{k: v for k, v in c.items() if k in ("id", "shell", "ast", "toks", "blanks", "obs", "badstmt", "expect_ok")} for c in cases]
    res = core.run_tlc_sharded("DiagCheck.tla", "DiagCheck.cfg", strip, shards=12, workers=2, prefix="diag", timeout=3000)
    byid = {c["id"]: c for c in cases}
    v = core.Verdict(prop)
    for m in res.tagged("MISMATCH"):
        d = json.loads(m[0])
        c = byid[d["id"]]
        if c["_obs"].get("unconfirmed"):
            continue
        for a in sorted(d["aspects"]):
            if a not in aspects:
                continue
            sig = {"kind": a, "planted": c.get("planted", "")}
            what = "%r [%s]" % (c["usage"], c["shell"])
            if a == "location":
                bad = sorted(d["badloc"], key=lambda b: b["k"])
                if bad:
                    b = bad[0]
                    sig["cls"] = b["cls"]
                    # layout feature in front of the expected token on its line: a backslash escape earlier in the file?
                    first_fit = sorted(b["fits"], key=lambda f: (f["line"], f["col"]))[:1]
                    text_before = ""
                    if first_fit:
                        lines = c["usage"].split("\n")
                        text_before = "\n".join(lines[:first_fit[0]["line"] - 1] + [lines[first_fit[0]["line"] - 1][:first_fit[0]["col"] - 1]])
                    sig["after_escape"] = "\\" in text_before
                    what += " line %d reports %d:%d for `%s`; tokens of that sort start at %s" % (
                        b["k"], b["line"], b["col"], b["cls"], [(f["line"], f["col"]) for f in sorted(b["fits"], key=lambda f: (f["line"], f["col"]))][:6])
                else:
                    sig["cls"] = "duplicate_same_place"
            elif a == "snippet":
                what += " echoed source line is not the reported line; stderr: %r" % c["_obs"].get("stderr", "")[:300]
            elif a in ("warning_set", "warning_repeated"):
                sig["missing"] = sorted(x[0] for x in d["missing"])
                sig["extra"] = sorted(x[0] for x in d["extra"])
                what += " warnings missing %s extra %s" % (d["missing"], d["extra"])
            elif a == "exit":
                sig["exit"] = d["exit"]
                what += " exit status %s with stderr %r" % (d["exit"], c["_obs"].get("stderr", "")[:200])
            v.mismatch(sig, what, {"usage": c["usage"], "shell": c["shell"], "aspect": a, "detail": d, "stderr": c["_obs"].get("stderr", "")[:2000]})
    val = res.tagged("VALIDATED")
    if len(val) < len(cases):
        raise core.ToolError("vacuity: %d of %d validated" % (len(val), len(cases)))
    with_lines = sum(1 for x in val if x[1] > 0)
    if with_lines < len(cases) // 3:
        raise core.ToolError("vacuity: only %d of %d runs printed a located line" % (with_lines, len(cases)))
    per = {}
    for c in cases:
        for dg in c["obs"]["diags"]:
            per[dg["cls"]] = per.get(dg["cls"], 0) + 1
    samples = [{"usage": c["usage"], "shell": c["shell"], "planted": c.get("planted", ""), "located_lines": [(d["cls"], d["line"], d["col"]) for d in c["obs"]["diags"]]}
               for c in cases[3:: max(1, len(cases) // 5)][:5]]
    cov = {"states": res.distinct + extra_states[0], "transitions": res.generated + extra_states[1], "traces_validated_against_impl": len(val),
           "samples": samples, "programs": len({c["usage"] for c in cases}), "evaluations": len(cases),
           "distinct_nontrivial": len({c["usage"] for c in cases if c["obs"]["diags"]}), "located_lines_by_class": per, "front_end": stats,
           "rule": rule, "known_findings_hit": sorted(v.known_hits)}
    rc = v.finish()
    core.write_evidence(prop, tier, "model_checking", cov, list(assumptions) + [
        "runs go through main.rs compiled into the recorder; a random sample and every non-0/1 outcome are re-run with the real binary",
        "the culprit's own line is ASCII (whether a column counts bytes or characters is not fixed by the property)",
        "the echoed source line is compared with the file's line as plain text by the harness"], time.time() - t0, len(v.violations))
    return rc
