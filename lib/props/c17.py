# C17 - external commands run only when expected, with the documented arguments/output.
# Same spec -> impl -> spec flow as C01 (Walk.tla generates command lines, real bash answers, BashCheck.tla validates),
# on a corpus biased towards probe commands in every context the property names; the aspects decided here are the
# probe log (required calls with their two arguments, no unjustified call), the candidates taken from command output
# (text before the first TAB, filtered by the typed text) and the acceptance of earlier words at command points.
import random
import core, corpus, bashdrv, gen
from gen import L, R, C
from props import c01

CMD_CLASSES = {"fail_not_a_command_candidate", "any_word_at_command_point", "command_candidate_beside_other_command",
               "command_candidate_with_blank", "command_candidate", "command_candidate_beside_unfinished_word"}


def scope(d, kind):
    if kind in ("required_call", "unjustified_call"):
        return True
    if kind == "reply":
        return "cmd" in d["missingkinds"] or "cmd" in d["extrakinds"] or bool(set(d["classes"]) & CMD_CLASSES)
    if kind == "rc":
        return bool(set(d["classes"]) & CMD_CLASSES)
    return False


def P(i, cls):
    return C('__probe c%d %s "$@"' % (i, cls))


def contexts():
    """one grammar per (context, output class): the contexts the property statement lists"""
    out = []
    for cls in ("p1", "p3", "p4", "p5"):
        p, q = P(1, cls), P(2, "p2")
        out += [
            ("top", [("seq", [L("first"), p, L("last")])], []),
            ("opt", [("seq", [("opt", p), L("last")])], []),
            ("many", [("seq", [("many", p), L("last")])], []),
            ("alt", [("seq", [("alt", [p, L("lit"), q]), L("last")])], []),
            ("fb", [("seq", [("fb", [L("lit"), p]), L("last")])], []),
            ("fb2", [("seq", [("fb", [p, q]), L("last")])], []),
            ("word", [("seq", [("sub", [L("--opt="), p]), L("last")])], []),
            ("word_alt", [("seq", [("sub", [L("--k="), ("alt", [p, L("lit")])]), L("last")])], []),
            ("word_fb", [("seq", [("sub", [L("-o"), ("fb", [L("lit"), p])]), L("last")])], []),
            ("word_then_lit", [("seq", [("sub", [L("--a="), p, L(",x")]), L("last")])], []),
            ("def", [("seq", [L("first"), R("X"), L("last")])], [("X", "", p)]),
            ("def_in_word", [("seq", [("sub", [L("--opt="), R("X")]), L("last")])], [("X", "", p)]),
            ("specdef", [("seq", [L("first"), R("X"), L("last")])], [("X", "", q), ("X", "bash", p), ("X", "fish", P(3, "p8"))]),
            ("spec_only", [("seq", [L("first"), R("X"), L("last")])], [("X", "bash", p), ("X", "zsh", P(3, "p8"))]),
            ("other_shell_only", [("seq", [L("first"), R("X"), L("last")])], [("X", "fish", P(3, "p8"))]),
            ("nested_def", [("seq", [R("A"), L("last")])], [("A", "", ("alt", [R("B"), L("lit")])), ("B", "", ("seq", [L("b"), p]))]),
            ("two_variants", [("seq", [L("one"), p]), ("seq", [L("two"), q])], []),
            ("specdef_fb", [("seq", [("fb", [R("X"), L("--help")]), L("last")])], [("X", "", q), ("X", "bash", p)]),
            ("spec_only_fb", [("seq", [("fb", [L("--all"), R("X")]), L("last")])], [("X", "bash", p)]),
            ("word_fb_cmds", [("seq", [("sub", [L("--opt="), ("fb", [p, q])]), L("last")])], []),
            ("word_cmd_then_top_fb", [("seq", [("fb", [L("lit"), ("sub", [L("--o="), ("fb", [q, p])])]), L("last")])], []),
            # one definition used at two different `||` levels (in a later branch first, then at level 0 in another call variant)
            ("shared_def_two_levels", [("seq", [L("first"), ("fb", [L("foo"), R("X")])]), ("seq", [L("second"), R("X")])], [("X", "", p)]),
            ("shared_def_two_levels_rev", [("seq", [L("second"), R("X")]), ("seq", [L("first"), ("fb", [L("foo"), R("X")])])], [("X", "", p)]),
        ]
    # candidates that are prefixes of one another, shorter first, inside a word with more of the word to come
    r = P(1, "p10")
    out += [
        ("word_then_lit_prefix_candidates", [("seq", [("sub", [L("--user="), r, L(":rw")]), L("next")])], []),
        ("word_prefix_candidates", [("seq", [("sub", [L("--opt="), r]), L("last")])], []),
        ("top_prefix_candidates", [("seq", [L("first"), r, L("last")])], []),
    ]
    return out


def build_corpus(tier, seed):
    rnd = random.Random(seed)
    cases = []
    for name, variants, defs in contexts():
        c = gen.case(variants, defs, shell="bash")
        cases.append(corpus.annotate_bash(corpus.finish(c, len(cases) + 1, origin="context:" + name), bashdrv.PROBE_CLASSES))
    nctx = len(cases)
    n = 25 if tier == "quick" else 300
    rc = corpus.bash_random_cases(n, seed + 17, bashdrv.PROBE_CLASSES, classes=("p1", "p3", "p4", "p5"), start_id=1000,
                                  depth=4 if tier == "quick" else 5)
    # keep the random grammars that contain a command at all
    rc = [c for c in rc if any(nd["k"] == "cmd" for nd in c["ast"]["nodes"])]
    ex, total = corpus.bash_exhaustive(3 if tier == "quick" else 4, bashdrv.PROBE_CLASSES, start_id=100000,
                                       leaves=[L("foo"), R("U"), C('__probe c1 p1 "$@"'), C('__probe c2 p3 "$@"')],
                                       limit=None if tier == "quick" else 1200, rnd=rnd)
    ex = [c for c in ex if any(nd["k"] == "cmd" for nd in c["ast"]["nodes"])]
    return cases + rc + ex, nctx


def run(tier):
    core.build()
    seed = core.seed()
    cases, nctx = build_corpus(tier, seed)
    return c01.run_flow("C17", cases, (30 if tier == "quick" else 50, 6), ("rc", "reply", "required_call", "unjustified_call"), tier, seed,
                        scope=scope, vm_budget=250 if tier == "quick" else 3000,
                        rule="%d hand-listed contexts (top level, [], ..., |, ||, inside a word after a literal prefix, through plain / @bash / other-shell "
                             "definitions, two call variants) x probe output classes (plain, tab-separated descriptions, candidates with blanks) + seeded random "
                             "grammars containing commands + every tree with <= 3 nodes (4 in thorough, sampled) over {foo, <U>, two probes}; probes log identity, "
                             "argument count and both arguments;" % nctx,
                        assumptions=["commands are probes with fixed output; the probe log is read after each completion"])
