# ./check selftest - demonstrates that the specifications are bound to what was recorded: for each record type a
# real record is corrupted in one field and TLC must report a MISMATCH for it (and none for the untouched twin).
# Exit 0: every corruption was detected; exit 2 otherwise (this is a test of the machinery, never a verdict on complgen).
import copy, json, random
import core, corpus, gen, equiv, memo, layout, cli, diag, readers, dotread
from gen import L, R, C


def expect(name, detected, clean, results):
    ok = detected and clean
    results.append((name, ok, "corruption detected" if detected else "CORRUPTION NOT DETECTED", "untouched twin accepted" if clean else "UNTOUCHED TWIN REJECTED"))
    core.log("selftest %-34s %s" % (name, "ok" if ok else "FAILED (%s, %s)" % (results[-1][2], results[-1][3])))


def run(tier):
    core.build()
    rnd = random.Random(7)
    results = []
    g = gen.case([("seq", [("alt", [L("a", "da"), ("sub", [L("--o="), ("alt", [L("x"), L("y")])])]), ("fb", [L("b"), L("c")]), ("opt", L("d"))])], [], shell="fish")
    base = core.record("compile", [corpus.finish(g, 1)])[0]
    assert base["obs"]["verdict"] == "ok"

    # C02: a transition target, a level, a description, an accepting state
    def eq_mismatch(rec, modes):
        res, mism, val = equiv.run([rec], modes, shards=1)
        return bool(mism)
    for name, f in [("C02 transition target", lambda o: o["min"]["tr"][0].__setitem__("t", o["min"]["tr"][-1]["f"])),
                    ("C02 fallback level", lambda o: [t["l"].__setitem__("lv", 0) for t in o["min"]["tr"] if t["l"]["t"] == "c"]),
                    ("C02 description", lambda o: [t["l"].__setitem__("d", "other") for t in o["min"]["tr"] if t["l"]["t"] == "a"]),
                    ("C02 accepting state", lambda o: o["min"].__setitem__("acc", [])),
                    ("C02 inner literal", lambda o: o["minsubs"][0]["tr"][-1]["l"].__setitem__("t", "z"))]:
        bad = copy.deepcopy(base)
        f(bad["obs"])
        expect(name, eq_mismatch(bad, ["spec-min"]), not eq_mismatch(copy.deepcopy(base), ["spec-min"]), results)
    # C03: an unreachable state and a split class
    bad = copy.deepcopy(base)
    bad["obs"]["min"]["tr"].append({"f": 97, "t": bad["obs"]["min"]["tr"][0]["t"], "l": bad["obs"]["min"]["tr"][0]["l"], "i": 0})
    r1 = core.run_tlc_sharded("MinCheck.tla", "MinCheck.cfg", [bad], shards=1, prefix="st-min")
    r0 = core.run_tlc_sharded("MinCheck.tla", "MinCheck.cfg", [copy.deepcopy(base)], shards=1, prefix="st-min")
    expect("C03 unreachable state", bool(r1.tagged("MISMATCH")), not r0.tagged("MISMATCH"), results)
    # C04: the script's tables, one entry changed
    text = core.emit_many([base])[0][1].decode()
    rd = readers.read_script(text, "fish", "cmd")

    def script_rec(rd):
        r = copy.deepcopy(base)
        r["obs"]["script"] = {"start": rd["main"]["start"], "acc": [], "tr": rd["main"]["tr"]}
        r["obs"]["scriptsubs"] = [{"start": s["start"], "acc": [], "tr": s["tr"]} for s in rd["subs"]]
        for d in r["obs"]["minsubs"] + r["obs"]["scriptsubs"]:
            d["acc"] = sorted({t["f"] for t in d["tr"]} | {t["t"] for t in d["tr"]} | {d["start"]})
        return r
    bad_rd = copy.deepcopy(rd)
    bad_rd["main"]["tr"][0]["l"]["lv"] = 3
    expect("C04 script table level", eq_mismatch(script_rec(bad_rd), ["min-script"]), not eq_mismatch(script_rec(rd), ["min-script"]), results)
    # C05: parsed tree with one literal changed
    toks, ast = gen.statements_tokens([("cmd", ("seq", [L("a"), ("many", ("alt", [L("b"), L("c", "d")]))]))], [])
    prs = core.record("parse", [{"id": 1, "usage": gen.layout_default(toks), "shell": "bash"}])[0]["obs"]
    good = {"id": 1, "ast": ast, "expect": "same", "obs": {"ok": True, "statements": prs["statements"], "crashed": False}}
    bad = copy.deepcopy(good)
    bad["obs"]["statements"][0]["tree"]["c"][0]["t"] = "A"
    r1 = core.run_tlc_sharded("TreeCheck.tla", "TreeCheck.cfg", [bad], shards=1, prefix="st-tree")
    r0 = core.run_tlc_sharded("TreeCheck.tla", "TreeCheck.cfg", [good], shards=1, prefix="st-tree")
    expect("C05 parsed literal", bool(r1.tagged("MISMATCH")), not r0.tagged("MISMATCH"), results)
    # C13 / C15: a located line moved by one column; a warning dropped
    vs, ds = [("cmd", ("seq", [L("a|b"), R("UNDEF"), L("z")]))], [("SPARE", "", L("s"))]
    toks, ast = gen.statements_tokens(vs, ds)
    layout.annotate(toks)
    bl = layout.default_ids(toks)
    text = layout.render(toks, bl)
    o = cli.run_inproc([{"usage": text, "shell": "bash", "opt": {"dest": "file"}}])[0]
    dgs = [{k: d[k] for k in ("cls", "sev", "line", "col", "snip")} for d in diag.parse_stderr(o["stderr"], text)]
    for v in ast["variants"]:
        v["namecp"] = [ord(x) for x in v["name"]]
    good = {"id": 1, "shell": "bash", "ast": ast, "toks": layout.tok_records(toks), "blanks": bl, "badstmt": -1, "expect_ok": True, "obs": {"exit": o["exit"], "diags": dgs}}
    bad = copy.deepcopy(good)
    bad["obs"]["diags"][0]["col"] += 1
    bad2 = copy.deepcopy(good)
    bad2["obs"]["diags"] = bad2["obs"]["diags"][1:]
    r0 = core.run_tlc_sharded("DiagCheck.tla", "DiagCheck.cfg", [good], shards=1, prefix="st-diag")
    r1 = core.run_tlc_sharded("DiagCheck.tla", "DiagCheck.cfg", [bad], shards=1, prefix="st-diag")
    r2 = core.run_tlc_sharded("DiagCheck.tla", "DiagCheck.cfg", [bad2], shards=1, prefix="st-diag")
    expect("C13 column off by one", any("location" in json.loads(m[0])["aspects"] for m in r1.tagged("MISMATCH")), not r0.tagged("MISMATCH"), results)
    expect("C15 warning dropped", any("warning_set" in json.loads(m[0])["aspects"] for m in r2.tagged("MISMATCH")), len(dgs) >= 2, results)
    # C10 / C14: one digest changed in an observation log
    recs = [{"id": i, "key": "k%d" % (i % 3), "val": "v%d" % (i % 3)} for i in range(1, 10)]
    bad = copy.deepcopy(recs)
    bad[7]["val"] = "other"
    _, m1, _ = memo.run(bad, shards=1)
    _, m0, _ = memo.run(recs, shards=1)
    expect("C10/C14 digest differs", bool(m1), not m0, results)
    # C06: an outcome outside the phase machine
    from props import c06
    recs = [{"id": 1, "opt": {"dest": "file", "dfa": False, "regex": False, "input": "file"}, "obs": {"exit": 1, "stderr": "nonempty", "dest": "untouched", "regexfile": "absent", "dfafile": "absent"}},
            {"id": 2, "opt": {"dest": "existing", "dfa": False, "regex": False, "input": "file"}, "obs": {"exit": 1, "stderr": "nonempty", "dest": "other", "regexfile": "absent", "dfafile": "absent"}},
            {"id": 3, "opt": {"dest": "file", "dfa": False, "regex": False, "input": "file"}, "obs": {"exit": 101, "stderr": "nonempty", "dest": "untouched", "regexfile": "absent", "dfafile": "absent"}}]
    res = core.run_tlc("CliCheck.tla", "CliCheck.cfg", cases_path=c06._write(recs), workers=1, tag="st-cli")
    acc = {x[0] for x in res.tagged("ACCEPTED")}
    expect("C06 clobbered destination / panic", 2 not in acc and 3 not in acc, 1 in acc, results)
    # C07: a constant that loses its escape
    qgood = {"id": 1, "shell": "zsh", "withdescr": False, "consts": [{"raw": [ord(c) for c in '"a\\$b"'], "role": "literal"}], "lits": [[ord(c) for c in "a$b"]], "descrs": []}
    qbad = copy.deepcopy(qgood)
    qbad["consts"][0]["raw"] = [ord(c) for c in '"a$b"']
    r0 = core.run_tlc_sharded("QuoteCheck.tla", "QuoteCheck.cfg", [qgood], shards=1, prefix="st-q")
    r1 = core.run_tlc_sharded("QuoteCheck.tla", "QuoteCheck.cfg", [qbad], shards=1, prefix="st-q")
    expect("C07 unescaped dollar", bool(r1.tagged("MISMATCH")), not r0.tagged("MISMATCH"), results)
    # C08: observed class changed
    c = gen.case([("seq", [L("a"), R("Q1")])], [("Q1", "", R("Q1"))], shell="bash")
    corpus.finish(c, 1, planted="cycle")
    good = dict(c, obs={"exit": 1, "class": "cycle", "libclass": "cycle"})
    bad = dict(c, obs={"exit": 0, "class": "", "libclass": ""})
    r0 = core.run_tlc_sharded("VerdictCheck.tla", "VerdictCheck.cfg", [good], shards=1, prefix="st-v")
    r1 = core.run_tlc_sharded("VerdictCheck.tla", "VerdictCheck.cfg", [bad], shards=1, prefix="st-v")
    expect("C08 cycle accepted", bool(r1.tagged("MISMATCH")), not r0.tagged("MISMATCH"), results)
    # C16: an edge removed from the dump
    from props import c16
    r = copy.deepcopy(base)
    o = cli.run_inproc([{"usage": base["usage"], "shell": "fish", "opt": {"dest": "file", "dfa": True, "regex": True, "keep": True}}])[0]
    r["obs"]["dfa"], r["obs"]["regex"], r["obs"]["base"] = c16.project_dfa(o["dfa"]), c16.project_regex(o["regex"]), 1
    r["obs"]["cmdcps"] = []
    bad = copy.deepcopy(r)
    bad["obs"]["dfa"]["edges"] = [e for e in bad["obs"]["dfa"]["edges"] if e["dashed"] or e != [x for x in bad["obs"]["dfa"]["edges"] if not x["dashed"]][0]]
    bad2 = copy.deepcopy(r)
    bad2["obs"]["base"] = 0
    r0 = core.run_tlc_sharded("DotCheck.tla", "DotCheck.cfg", [r], shards=1, prefix="st-dot")
    r1 = core.run_tlc_sharded("DotCheck.tla", "DotCheck.cfg", [bad], shards=1, prefix="st-dot")
    r2 = core.run_tlc_sharded("DotCheck.tla", "DotCheck.cfg", [bad2], shards=1, prefix="st-dot")
    expect("C16 edge removed / wrong base", bool(r1.tagged("MISMATCH")) and bool(r2.tagged("MISMATCH")), not r0.tagged("MISMATCH"), results)
    # C09: two readings planted into a recorded automaton
    bad = copy.deepcopy(base)
    t0 = [t for t in bad["obs"]["min"]["tr"] if t["l"]["k"] == "lit"][0]
    dup = copy.deepcopy(t0)
    dup["l"]["lv"] = 5
    dup["t"] = bad["obs"]["min"]["start"]
    bad["obs"]["min"]["tr"].append(dup)
    strip = lambda r: {"id": r["id"], "obs": {"verdict": "ok", "min": r["obs"]["min"], "minsubs": r["obs"]["minsubs"]}}
    r1 = core.run_tlc_sharded("Overlap.tla", "Overlap.cfg", [strip(bad)], shards=1, prefix="st-ov")
    r0 = core.run_tlc_sharded("Overlap.tla", "Overlap.cfg", [strip(base)], shards=1, prefix="st-ov")
    expect("C09 same literal two targets", bool(r1.tagged("MISMATCH")), not r0.tagged("MISMATCH"), results)
    # C03 mechanism: a recorded trace of do_minimize with one event altered is not a behaviour of Hopcroft.tla
    from props import c03
    recs = core.record("compile", [corpus.finish(gen.case([("seq", [("alt", [("seq", [L("a"), L("b")]), ("seq", [L("a"), L("c")])]), ("many", ("opt", L("d"))), L("e")])], [], shell="bash"), 1)])

    def drop_split(cases):
        for c in cases:
            k = [i for i, e in enumerate(c["events"]) if e["ev"] == "split"]
            if k:
                del c["events"][k[0]]
    good = c03.trace_validation(recs, "quick")
    bad = c03.trace_validation(recs, "quick", corrupt=drop_split)
    expect("C03 hook trace with a split dropped", bad.get("traces_not_a_behaviour", 0) >= 1, good.get("traces_not_a_behaviour", 1) == 0 and good.get("traces", 0) >= 1, results)
    # C02 mechanism: a recorded trace of dfa_from_regex with one target set altered is not a behaviour of Subset.tla; a wrong state
    # number in the recorded final automaton is not what Subset.tla's Final computes
    from props import c02

    def alter_edge(cases):
        for c in cases:
            k = [e for e in c["events"] if e["ev"] == "sc_edge" and len(e["set"]) >= 1]
            if k:
                k[-1]["set"] = k[-1]["set"][:-1] + [k[-1]["set"][-1] + 1]

    def renumber_final(cases):
        for c in cases:
            if c["hasmin"] and c["mintr"]:
                c["mintr"][-1][2] = c["mintr"][-1][2] + 1
    good = c02.subset_mechanism(recs, "quick")
    bad = c02.subset_mechanism(recs, "quick", corrupt=alter_edge)
    bad2 = c02.subset_mechanism(recs, "quick", corrupt=renumber_final)
    expect("C02 hook trace with a target set altered / final automaton renumbered", bad.get("traces_not_a_behaviour", 0) >= 1 and bad2.get("final_automaton_differs", 0) >= 1,
           good.get("traces_not_a_behaviour", 1) == 0 and good.get("final_automaton_differs", 1) == 0 and good.get("traces", 0) >= 1, results)
    # C08 mechanism: a recorded trace of the resolution-order search with one `ro_emit` dropped is not a behaviour of Resolve.tla;
    # the model of the code before fix 4d45051 (RESOLVE_FIRSTONLY) reaches `unreachable!()` on some graph and rejects real traces
    import c08

    def drop_emit(cases):
        for c in cases:
            k = [i for i, e in enumerate(c["events"]) if e["ev"] == "ro_emit"]
            if k:
                del c["events"][k[0]]
    good = c08.resolve_mechanism("quick", 1, core.Verdict("C08"), limit=150)
    bad = c08.resolve_mechanism("quick", 1, core.Verdict("C08"), corrupt=drop_emit, limit=150)
    old = c08.resolve_mechanism("quick", 1, core.Verdict("C08"), env={"RESOLVE_FIRSTONLY": "1"}, limit=150)
    expect("C08 resolution-order trace with one emit dropped / model of the pre-fix cycle search", bad.get("traces_not_a_behaviour", 0) >= 1 and old.get("design_invariant_reports", 0) >= 1,
           good.get("traces_not_a_behaviour", 1) == 0 and good.get("design_invariant_reports", 1) == 0 and good.get("traces", 0) >= 100, results)
    # C01/C12/C17 step level: a recorded step trace of the emitted bash function with one `subword_state` value altered is not a
    # behaviour of BashStep.tla
    import bashflow, bashdrv, vm, vmtrace
    cs = [corpus.annotate_bash(corpus.finish(gen.case([("seq", [("sub", [L("--opt="), ("alt", [L("a"), L("abc"), C('__probe c1 p1 "$@"')])]), L("foo")])], [], shell="bash"), 1),
                               bashdrv.PROBE_CLASSES)]
    core.record("compile", cs)
    cs = bashflow.emit_scripts(cs)
    for c in cs:
        c["vm"] = vm.tables(c["_script"], bashdrv.PROBE_CLASSES)
    qs = {1: [{"words": ["--opt=abc"], "prefix": "f", "wb": "d"}, {"words": ["--opt=beta", "foo"], "prefix": "", "wb": "d"}, {"words": [], "prefix": "--opt=a", "wb": "d"}]}
    recs2 = bashflow.execute(cs, qs)
    for r in recs2:
        r["vm"], r["_script"] = cs[0]["vm"], cs[0]["_script"]

    def alter_step(recs):
        for r in recs:
            for t in r["traces"]:
                k = [e for e in t["ev"] if e["e"] == "ss" and e["v"] > 0]
                if k:
                    k[-1]["v"] += 1
    good = vmtrace.validate(recs2, 50, random.Random(1))
    bad = vmtrace.validate(recs2, 50, random.Random(1), corrupt=alter_step)
    expect("C01 bash step trace with a state altered", bad.get("step_traces_not_a_behaviour", 0) >= 1,
           good.get("step_traces_not_a_behaviour", 1) == 0 and good.get("step_traces", 0) >= 3, results)
    failed = [r for r in results if not r[1]]
    print("selftest: %d of %d corruptions detected with their untouched twins accepted" % (len(results) - len(failed), len(results)))
    return 2 if failed else 0
