# C16 - the --dfa and --regex Graphviz dumps are well-formed and show the real automaton.
# Grammars with quotes, backslashes, braces in literals, descriptions and commands, several within-word automata,
# all-accepting automata, x 4 shells (numbering base differs).  The two files written by the command are read by a strict
# DOT reader (lib/dotread.py); TLC compares the graph of --dfa with the recorded minimised automaton and checks that every
# literal occurs in a node label of --regex (DotCheck.tla).
import json, random, re, time
import core, corpus, gen, cli, dotread
from gen import L, R, C

BASE = {"bash": 0, "fish": 1, "zsh": 1, "pwsh": 0}
NODE = re.compile(r"^_((?:\d+_)?)(\d+)$")


def special_grammars(rnd):
    w = lambda pre, vals: ("sub", [L(pre), ("alt", [L(v) for v in vals])])
    texts = ['q"r', "k\\l", "a{b}", 'x\\"y', "p|q", "(z)", "end\\", '"', "\\", "a\\nb", "<t>", "[u]", "semi;", "%s", "tab"]
    out = []
    for i in range(0, len(texts), 3):
        a, b, c = texts[i:i + 3]
        out.append([("seq", [("alt", [L(a, 'descr "%s"' % b), L(b), L(c, "back\\slash")]), w("--o=", [a, "v"]), ("opt", L("tail"))])])
    out.append([("seq", [C('printf \'%s\\n\' "a b" \\\\ {x}'), ("sub", [L("--c="), C("echo \"q\"")]), L("z")])])
    # a backslash directly before a quote and a backslash as the last character of a command, at top level and inside a word
    out.append([("seq", [C('echo "a\\"b"'), ("sub", [L("--tag="), C('git tag | sed "s/\\"//g"')]), ("opt", C("printf x\\"))])])
    out.append([("opt", ("seq", [L("a"), ("opt", L("b"))]))])
    out.append([("many", ("alt", [w("--x=", ["1", "2"]), w("--y=", ["3", "4"]), w("--z=", ["5", "6", "7"])]))])
    out.append([("seq", [("fb", [L("f0"), L("f1", "lvl"), R("UNDEF")]), ("sub", [L("-k"), R("UNDEF2")])])])
    out = [(v, []) for v in out]
    # one within-word expression (behind a definition) used at two places; two different within-word expressions in a row
    out.append(([("alt", [("seq", [R("OPT"), L("file")]), ("seq", [L("sub"), R("OPT")])])], [("OPT", "", w("--color=", ["always", "never"]))]))
    out.append(([("seq", [w("--color=", ["always", "never"]), w("--level=", ["1", "2"]), ("opt", w("--color=", ["always", "never"]))])], []))
    return out


def project_dfa(text):
    g = dotread.parse_dot(text)
    if not g.get("ok"):
        return {"ok": False, "error": g.get("error", ""), "nodes": [], "edges": []}
    gr = g["graph"]
    nodes, edges = [], []
    inh = gr.get("node_inherited", {})
    for nid, attrs in gr["nodes"].items():
        m = NODE.match(nid)
        shape = attrs.get("shape") or inh.get(nid, {}).get("shape", "")
        nodes.append({"pfx": m.group(1) if m else "?", "n": int(m.group(2)) if m else -1, "shape": shape})
    for e in gr["edges"]:
        mf, mt = NODE.match(e["f"]), NODE.match(e["t"])
        lab = dotread.decode_label(e["attrs"].get("label", ""))
        edges.append({"fp": mf.group(1) if mf else "?", "fn": int(mf.group(2)) if mf else -1, "tp": mt.group(1) if mt else "?", "tn": int(mt.group(2)) if mt else -1,
                      "dashed": e["attrs"].get("style", "") == "dashed", "label": [ord(ch) for ch in lab]})
    return {"ok": True, "error": "", "nodes": nodes, "edges": edges}


def project_regex(text):
    g = dotread.parse_dot(text)
    if not g.get("ok"):
        return {"ok": False, "error": g.get("error", ""), "labels": [], "unlabelled": 0}
    labels = []
    unlabelled = 0
    for nid, attrs in g["graph"]["nodes"].items():
        if "label" in attrs:
            labels.append([ord(ch) for ch in dotread.decode_label(attrs["label"])])
        else:
            unlabelled += 1
    return {"ok": True, "error": "", "labels": labels, "unlabelled": unlabelled}


def build_corpus(tier, seed):
    rnd = random.Random(seed)
    cases = []
    for variants, defs in special_grammars(rnd):
        for sh in gen.SHELLS:
            cases.append(corpus.finish(gen.case(variants, defs, shell=sh), len(cases) + 1, origin="special"))
    for c in corpus.random_cases((40 if tier == "quick" else 800) * 4, seed + 16, start_id=1000, shells=gen.SHELLS, depth=4, with_probes=False,
                                 lits=["a", 'q"r', "k\\l", "--x=", "b", "{c}", "-y", "foo"], p_descr=0.3):
        c["id"] = len(cases) + 1
        cases.append(c)
    ex, total = corpus.exhaustive(3, start_id=50000)
    for c in ex[:: (4 if tier == "quick" else 1)]:
        for sh in ("bash", "fish"):
            x = dict(c, shell=sh, id=len(cases) + 1)
            cases.append(x)
    return cases


def run(tier):
    t0 = time.time()
    core.build()
    seed = core.seed()
    cases = build_corpus(tier, seed)
    rec = core.record("compile", cases)
    ok = [r for r in rec if r["obs"]["verdict"] == "ok"]
    for r in ok:
        r["opt"] = {"dest": "file", "destname": "_cmd" if r["shell"] == "zsh" else "out.script", "dfa": True, "regex": True, "keep": True}
    obs = cli.run_inproc(ok)
    v = core.Verdict("C16")
    good = []
    for r, o in zip(ok, obs):
        if o.get("exit") != 0:
            continue
        r["obs"]["dfa"] = project_dfa(o.get("dfa", ""))
        r["obs"]["regex"] = project_regex(o.get("regex", ""))
        r["obs"]["base"] = BASE[r["shell"]]
        r["_dfa"], r["_regex"] = o.get("dfa", ""), o.get("regex", "")
        good.append(r)
    for r in good:      # command texts of the automaton (main and within-word), as code points
        r["obs"]["cmdcps"] = sorted({tuple(ord(ch) for ch in t["l"]["t"]) for d in [r["obs"]["min"]] + r["obs"]["minsubs"] for t in d["tr"] if t["l"]["k"] in ("cmd", "compadd")})
        r["obs"]["cmdcps"] = [list(x) for x in r["obs"]["cmdcps"]]
    strip = [{"id": r["id"], "shell": r["shell"], "ast": r["ast"], "obs": {k: r["obs"][k] for k in ("verdict", "min", "minsubs", "dfa", "regex", "base", "cmdcps")}} for r in good]
    res = core.run_tlc_sharded("DotCheck.tla", "DotCheck.cfg", strip, shards=12, workers=2, prefix="dot", timeout=3000)
    byid = {r["id"]: r for r in good}

    def chars(r):
        txt = r["usage"]
        return sorted({"dquote" for _ in [0] if '\\"' in txt or '"' in "".join(n["t"] for n in r["ast"]["nodes"] if n["k"] != "dd")} |
                      {"backslash" for _ in [0] if "\\\\" in txt} | {"descr_dquote" for _ in [0] if any('"' in n["d"] or (n["k"] == "dd" and '"' in n["t"]) for n in r["ast"]["nodes"])})
    for m in res.tagged("MISMATCH"):
        d = json.loads(m[0])
        r = byid[d["id"]]
        for p in sorted(d["problems"]):
            sig = {"kind": p, "base": BASE[r["shell"]] if p.startswith("dfa_within") or p == "dfa_main_automaton_not_shown" else "any"}
            if p.endswith("not_valid_dot") or p in ("regex_item_missing", "regex_command_missing") or p == "dfa_main_automaton_not_shown":
                sig["chars"] = chars(r)
            err = r["obs"]["dfa"]["error"] if p.startswith("dfa_file") else (r["obs"]["regex"]["error"] if p.startswith("regex_file") else "")
            v.mismatch(sig, "%s [%s]: %s %s" % (r["usage"].strip().replace("\n", " "), r["shell"], p, err),
                       {"usage": r["usage"], "shell": r["shell"], "problem": p, "error": err, "dfa_file": r["_dfa"][:3000], "regex_file": r["_regex"][:3000]})
    nval = len(res.tagged("VALIDATED"))
    if nval < len(good) or len(good) < len(ok) * 0.9:
        raise core.ToolError("vacuity: %d of %d validated; %d of %d compiled" % (nval, len(good), len(good), len(ok)))
    samples = [{"usage": r["usage"], "shell": r["shell"], "dfa_nodes": len(r["obs"]["dfa"]["nodes"]), "dfa_edges": len(r["obs"]["dfa"]["edges"]),
                "regex_labels": len(r["obs"]["regex"]["labels"])} for r in good[:: max(1, len(good) // 4)][:4]]
    cov = {"states": res.distinct, "transitions": res.generated, "traces_validated_against_impl": nval, "samples": samples, "programs": len({r["usage"] for r in good}),
           "evaluations": 2 * len(good), "distinct_nontrivial": len({(r["usage"], r["shell"]) for r in good if len(r["obs"]["min"]["tr"]) >= 2}),
           "with_clusters": sum(1 for r in good if r["obs"]["minsubs"]),
           "rule": "hand-listed grammars with quotes / backslashes / braces / brackets in literals, descriptions and commands, several within-word automata, "
                   "all-accepting automata + seeded random grammars over a literal pool with such characters + every tree with <= 3 nodes, x shells; "
                   "non-trivial = automaton with >= 2 transitions, distinct by (usage, shell)",
           "known_findings_hit": sorted(v.known_hits)}
    rc = v.finish()
    core.write_evidence("C16", tier, "model_checking", cov,
                        ["Graphviz is not installed: the files are read by a strict reader written from the DOT grammar (lib/dotread.py)",
                         "an edge label of --dfa is required to contain the literal's text after DOT decoding, a node label of --regex the literal's or the command's text; how "
                         "descriptions and levels are rendered is not prescribed",
                         "files are written through the in-process front end (main.rs compiled into the recorder)"], time.time() - t0, len(v.violations))
    return rc
