#!/usr/bin/env python3
"""Self-test for dotread.py.
Part 1: hand-written DOT snippets (valid and invalid) with asserted outcomes; any miss => exit 1.
Part 2: compile a set of grammars with the pinned complgen for 4 shells, parse the --dfa/--regex dumps
        and REPORT (not assert) which are well-formed DOT. Usage: dotread_selftest.py [COMPLGEN_BIN]"""
import os, subprocess, sys, tempfile
sys.path.insert(0, os.path.dirname(os.path.abspath(__file__)))
from dotread import parse_dot, decode_label

E = lambda g: [(e["f"], e["t"]) for e in g["edges"]]
BS = "\\"

# (name, text, check)  check: callable(graph)->bool for valid input, or str = required substring of the error
CASES = [
 ("empty digraph", "digraph { }", lambda g: g["directed"] and not g["strict"] and g["name"] == "" and not g["nodes"]),
 ("strict + name", "strict digraph G { a -> b }", lambda g: g["strict"] and g["name"] == "G" and E(g) == [("a", "b")]),
 ("undirected chain", "graph g { a -- b -- c }", lambda g: not g["directed"] and E(g) == [("a", "b"), ("b", "c")]),
 ("keywords any case", "Strict DiGraph G { NODE [shape=box]; a; Edge [color=red]; a -> b; GRAPH [rankdir=LR] SUBGRAPH s { c } }",
  lambda g: g["node_defaults"] == {"shape": "box"} and g["edge_defaults"] == {"color": "red"} and g["graph_attrs"] == {"rankdir": "LR"}
  and g["nodes"]["a"] == {} and g["node_inherited"]["a"] == {"shape": "box"} and g["edges"][0]["inherited"] == {"color": "red"}
  and g["subgraphs"][0]["name"] == "s"),
 ("attr separators", "digraph { a [x=1, y=2; z=3 w=4][v=5] }", lambda g: g["nodes"]["a"] == dict(x="1", y="2", z="3", w="4", v="5")),
 ("only \\\" is unescaped", 'digraph { a [label="x\\"y\\\\z\\n\\l"] }', lambda g: g["nodes"]["a"]["label"] == 'x"y' + BS * 2 + "z" + BS + "n" + BS + "l"
  and decode_label(g["nodes"]["a"]["label"]) == 'x"y' + BS + "z\n\n"),
 ("string ending in \\\\", 'digraph { a [label="end\\\\"]; b }', lambda g: g["nodes"]["a"]["label"] == "end" + BS * 2 and "b" in g["nodes"]),
 ("line continuation", 'digraph { a [label="ab\\\ncd"] }', lambda g: g["nodes"]["a"]["label"] == "abcd"),
 ("newline in string", 'digraph { a [label="ab\ncd"] }', lambda g: g["nodes"]["a"]["label"] == "ab\ncd"),
 ("'+' concatenation", 'digraph { "a" + "b" -> "c" [label="x" + "y"+"z"] }', lambda g: E(g) == [("ab", "c")] and g["edges"][0]["attrs"] == {"label": "xyz"}),
 ("html string", "digraph { a [label=<<b>x</b> <i>y</i>>] }", lambda g: g["nodes"]["a"]["label"] == "<<b>x</b> <i>y</i>>"),
 ("html string with quote", 'digraph { a [label=<say "hi">] }', lambda g: g["nodes"]["a"]["label"] == '<say "hi">'),
 ("numerals as ids", "digraph { -1.5 -> .5 -> 3. -> 42 -> -7 }", lambda g: list(g["nodes"]) == ["-1.5", ".5", "3.", "42", "-7"]),
 ("comments", "/* c\n */ digraph { // x }\n# 1 \"pp\" line }\n a -> b /* { */ }", lambda g: E(g) == [("a", "b")]),
 ("# and // inside string", 'digraph { a [label="x\n# not a comment // nor this /* */"] }', lambda g: "# not a comment // nor" in g["nodes"]["a"]["label"]),
 ("ports", 'digraph { a:p1:ne -> b:sw -> c:"port 2" ; d:_ }', lambda g: [(e.get("f_port"), e.get("t_port")) for e in g["edges"]] == [("p1:ne", "sw"), ("sw", "port 2")]
  and list(g["nodes"]) == ["a", "b", "c", "d"]),
 ("cluster subgraph", 'digraph { x -> a; subgraph cluster_0 { label="sub 0"; color=grey91; a -> b } b -> x }',
  lambda g: g["subgraphs"] == [{"name": "cluster_0", "attrs": {"label": "sub 0", "color": "grey91"}, "nodes": ["a", "b"], "edges": [1], "subgraphs": []}]
  and len(g["edges"]) == 3 and g["graph_attrs"] == {}),
 ("subgraph endpoints", "digraph { {a b} -> {c d} }", lambda g: E(g) == [("a", "c"), ("a", "d"), ("b", "c"), ("b", "d")] and len(g["subgraphs"]) == 2),
 ("subgraph in chain", "digraph { subgraph s {a} -> b -> subgraph {c; d} -> e [k=v] }",
  lambda g: E(g) == [("a", "b"), ("b", "c"), ("b", "d"), ("c", "e"), ("d", "e")] and all(e["attrs"] == {"k": "v"} for e in g["edges"])),
 ("nested subgraphs", "digraph { subgraph o { a; subgraph i { b -> c } } }",
  lambda g: g["subgraphs"][0]["nodes"] == ["a", "b", "c"] and g["subgraphs"][0]["subgraphs"][0]["nodes"] == ["b", "c"]
  and g["subgraphs"][0]["edges"] == [0] and g["subgraphs"][0]["subgraphs"][0]["edges"] == [0]),
 ("defaults are scoped", "digraph { node [shape=box] subgraph { node [shape=circle, color=red]; a } b }",
  lambda g: g["node_inherited"] == {"a": {"shape": "circle", "color": "red"}, "b": {"shape": "box"}} and g["node_defaults"] == {"shape": "box"}),
 ("defaults apply at first mention", "digraph { node [shape=octagon]; s; node [shape=circle]; t; node [shape=doublecircle]; s [label=S]; u; t -> v }",
  lambda g: [g["node_inherited"][k]["shape"] for k in "stuv"] == ["octagon", "circle", "doublecircle", "doublecircle"] and g["nodes"]["s"] == {"label": "S"}),
 ("ID = ID", 'digraph { rankdir=LR; "font name" = "a b" }', lambda g: g["graph_attrs"] == {"rankdir": "LR", "font name": "a b"} and not g["nodes"]),
 ("quoted keywords are ids", 'digraph "graph" { "node" -> "edge" -> "subgraph" }', lambda g: g["name"] == "graph" and list(g["nodes"]) == ["node", "edge", "subgraph"]),
 ("non-ascii names", "digraph { \u00e9t\u00e9 -> \u00df1 }", lambda g: E(g) == [("\u00e9t\u00e9", "\u00df1")]),
 ("no separators needed", "digraph{a b c a->b[k=v]c->a}", lambda g: list(g["nodes"]) == ["a", "b", "c"] and E(g) == [("a", "b"), ("c", "a")]),
 ("node attrs merge", "digraph { a [x=1] a [y=2] a [x=3] }", lambda g: g["nodes"]["a"] == {"x": "3", "y": "2"}),
 ("BOM", "\ufeffdigraph { a }", lambda g: "a" in g["nodes"]),
 ("subgraph reopened", "digraph { subgraph s { a } subgraph s { b } }", lambda g: len(g["subgraphs"]) == 1 and g["subgraphs"][0]["nodes"] == ["a", "b"]),
 ("empty attr lists", "digraph { a [] node [] [] b [][x=1] }", lambda g: g["nodes"] == {"a": {}, "b": {"x": "1"}}),
 ("loops and multi-edges kept", "digraph { a -> a; a -> b; a -> b }", lambda g: E(g) == [("a", "a"), ("a", "b"), ("a", "b")]),
 ("underscore ids", "digraph dfa { _0_1[label=\"0_1\"]; _0_1 -> _2 [style=\"dashed\"]; }", lambda g: g["nodes"]["_0_1"] == {"label": "0_1"} and "_2" in g["nodes"]),
 ("escaped quotes in label", 'digraph { _0[label="0: \\"a\\"\\n\\"d\\""]; }', lambda g: decode_label(g["nodes"]["_0"]["label"]) == '0: "a"\n"d"'),
 ("CRLF + tabs", "digraph {\r\n\ta -> b;\r\n}\r\n", lambda g: E(g) == [("a", "b")]),
 # ---------------- invalid ----------------
 ("empty input", "", "line 1 col 1: expected 'graph' or 'digraph', found end of input"),
 ("no body", "digraph G", "expected '{' to open the graph body, found end of input"),
 ("two names", 'digraph "a" "b" {}', "line 1 col 13: expected '{' to open the graph body"),
 ("keyword as graph name", "digraph graph { }", "keyword must be quoted"),
 ("strict twice", "strict strict graph {}", "line 1 col 8: expected 'graph' or 'digraph', found keyword 'strict'"),
 ("missing graph keyword", "{ a -> b }", "expected 'graph' or 'digraph', found '{'"),
 ("unterminated string", 'digraph {\n  a [label="abc];\n}\n', "line 2 col 12: unterminated quoted string"),
 ("backslash-quote eats terminator", 'digraph { a [label="x\\"]; b [label="y"] }', "line 1 col 38: unterminated quoted string"),
 ("unterminated comment", "digraph { a /* b }", "line 1 col 13: unterminated /* comment"),
 ("unterminated html", "digraph { a [label=<<b>x</b>] }", "line 1 col 20: unterminated <html string>"),
 ("missing closing brace", "digraph {\n a -> b\n", "closing the graph body opened at line 1 col 9, found end of input"),
 ("missing closing brace of subgraph", "digraph { subgraph s { a }", "closing the graph body opened at line 1 col 9"),
 ("extra closing brace", "digraph { a } }", "line 1 col 15: expected end of input after the graph's closing '}'"),
 ("trailing garbage", "digraph { a }\nfoo", "line 2 col 1: expected end of input"),
 ("second graph", "digraph { a } digraph { b }", "line 1 col 15: expected end of input"),
 ("missing edge target", "digraph { a -> }", "line 1 col 16: expected an edge target (node id or subgraph) after '->', found '}'"),
 ("missing edge target ;", "digraph { a -> b -> ; }", "line 1 col 21: expected an edge target"),
 ("missing edge source", "digraph { -> b }", "line 1 col 11: expected a statement"),
 ("-- in digraph", "digraph { a -- b }", "line 1 col 13: expected edge operator '->' in a digraph, found '--'"),
 ("-> in graph", "graph { a -> b }", "expected edge operator '--' in a graph, found '->'"),
 ("unclosed bracket", 'digraph { a [label="x" }', "line 1 col 24: expected an attribute name or ']' closing the '[' at line 1 col 13, found '}'"),
 ("unopened bracket", 'digraph { a label="x"] }', "line 1 col 22: expected a statement"),
 ("quote ends label early", 'digraph { a [label="say "hi""]; }', "line 1 col 28: expected '=' after attribute name 'hi' (at line 1 col 26), found quoted string ''"),
 ("quote ends label early 2", 'digraph {\n\t_0[label="0: \\"a\\"\\n\\"de"s\\cr\\""];\n}', "line 2 col 28: unexpected character '\\\\'"),
 ("\\\\ then quote ends label", 'digraph {\n\t_0 -> _1 [label="a \\"de\\\\"s (0)"];\n}', "line 2 col 30: unexpected character '('"),
 ("attr without value", "digraph { a [label=] }", "line 1 col 20: expected a value for attribute 'label', found ']'"),
 ("attr without =", "digraph { a [label] }", "expected '=' after attribute name 'label'"),
 ("attr without name", "digraph { a [=x] }", "line 1 col 14: expected an attribute name"),
 ("keyword as node", "digraph { node -> a }", "line 1 col 16: expected '[' after 'node'"),
 ("keyword as edge target", "digraph { a -> edge }", "keyword must be quoted"),
 ("attr stmt without list", "digraph { node; }", "expected '[' after 'node'"),
 ("double semicolon", "digraph { a;; b }", "line 1 col 13: expected a statement"),
 ("comma between statements", "digraph { a, b }", "line 1 col 12: expected a statement"),
 ("bad compass", "digraph { a:p:xx -> b }", "line 1 col 15: expected a compass point"),
 ("missing port", "digraph { a: -> b }", "expected a port name or compass point after ':'"),
 ("'+' needs quoted string", 'digraph { "a" + b }', "line 1 col 17: expected a quoted string after '+'"),
 ("stray character", "digraph { a -> b @ }", "line 1 col 18: unexpected character '@'"),
 ("dot in name", "digraph { a.b }", "unexpected character '.'"),
 ("minus in name", "digraph { a-b }", "line 1 col 12: '-' must begin"),
 ("badly delimited numeral", "digraph { 12ab }", "line 1 col 13: badly delimited numeral '12'"),
 ("# not in column 1", "digraph {\n a # note\n}", "line 2 col 4: unexpected character '#'"),
 ("subgraph without body", "digraph { subgraph x; }", "expected '{' to open the subgraph body, found ';'"),
 ("attrs before target", "digraph { a -> [color=red] b }", "expected an edge target"),
 ("dangling assignment", "digraph { a = }", "line 1 col 15: expected a value after 'a' =, found '}'"),
 ("assignment to port", "digraph { a:n = b }", "line 1 col 15: expected a statement"),
 ("unbalanced nested", "digraph { subgraph { a } } }", "line 1 col 28: expected end of input"),
 ("single-quoted string", "digraph { a [label='x'] }", "unexpected character \"'\""),
]

# Grammars for part 2 (complgen .usage syntax). Kept as raw strings: what you see is the file content.
GRAMMARS = [
 r'cmd [a];',
 r'cmd a b c;',
 r'cmd (a | b) [c] <X>...; <X> = foo | bar;',
 r'cmd a "plain descr" | b "other";',
 r'cmd (a b || c d);',
 r'cmd --opt=(x|y) rest;',
 r'cmd --opt=<X> [-v]; <X> = {{{ echo a }}};',
 r'cmd pre(a|b)post --k=(v "dv" | w);',
 r'cmd <PATH> <DIRECTORY>;',
 r'cmd <X>; <X@bash> = {{{ compgen -A file }}}; <X@fish> = {{{ __fish_complete_path }}}; <X@zsh> = {{{ _files }}}; <X@pwsh> = {{{ ls }}};',
 r'cmd a; cmd b c;',
 r'cmd a "opis ąę → ż";',
 r'cmd {{{ echo foo }}};',
 r'cmd {{{ echo "quoted" }}};',
 r"cmd {{{ printf 'a\nb' }}};",
 r"cmd {{{ awk '{print $1}' ${HOME}/f }}};",
 r'''cmd {{{ echo '"' "\\" }}} tail;''',
 r'cmd a "de\"scr";',
 r'cmd a "de\\scr";',
 r'cmd a "end\\";',
 r'cmd a "line\\nbreak";',
 r'cmd a "<b>{x}</b> [y] #z";',
 r'cmd li\"t;',
 r'cmd li\\t;',
 r'cmd end\\ x;',
 r'cmd a\|b;',
 r'cmd a\{b\}c;',
 r'cmd \<x\> \[y\] \(z\);',
 r'cmd --color=(always "al\"ways" | ne\"ver | au\\to "a\\b");',
 r'cmd --x=(a\|b | c\"d) e\"f "g\"h\\i";',
 r'cmd <X>...; <X> = --k=<Y> | lit\"eral "d\"q"; <Y> = {{{ echo "a b" \\ }}};',
 r'cmd a#b a-\>b "x -> y" c\;d;',
 "cmd a \"multi\nline\" | b \"tab\there\";",
]
SHELLS = ["bash", "fish", "zsh", "pwsh"]


def part1():
    bad = 0
    for name, text, check in CASES:
        r = parse_dot(text)
        if callable(check):
            good = r["ok"] and check(r["graph"])
        else:
            good = (not r["ok"]) and r["graph"] is None and r["error"].startswith("line ") and check in r["error"]
        if not good:
            bad += 1
            print("FAIL %-32s -> ok=%s error=%r\n     want %s" % (name, r["ok"], r["error"], "valid+check" if callable(check) else repr(check)))
    for v, want in [(r"a\nb\lc\rd", "a\nb\nc\nd"), (BS * 2 + "n", BS + "n"), (r"\N:\G\E\T\H\L", r"\N:\G\E\T\H\L"),
                    (r"\x\{\"" + BS, 'x{"' + BS), ("", ""), (r"{{{ echo \"bar\" '\n' }}}", "{{{ echo \"bar\" '\n' }}}")]:
        if decode_label(v) != want:
            bad += 1
            print("FAIL decode_label(%r) = %r want %r" % (v, decode_label(v), want))
    nv = sum(1 for c in CASES if callable(c[2]))
    print("part 1: %d snippets (%d valid, %d invalid), %d failures" % (len(CASES), nv, len(CASES) - nv, bad))
    return bad


def part2(binary):
    rejected = 0
    with tempfile.TemporaryDirectory(prefix="dotread-selftest-") as d:
        for gi, gram in enumerate(GRAMMARS):
            usage = os.path.join(d, "g.usage")
            with open(usage, "w", encoding="utf-8") as fh:
                fh.write(gram + "\n")
            res, lines = {"dfa": {}, "regex": {}}, {}
            for sh in SHELLS:
                paths = {k: os.path.join(d, "%s.%s.dot" % (sh, k)) for k in res}
                p = subprocess.run([binary, "--" + sh, os.devnull, "--dfa", paths["dfa"], "--regex", paths["regex"], usage],
                                   stdout=subprocess.PIPE, stderr=subprocess.PIPE, timeout=60)
                for k, path in paths.items():
                    if not os.path.exists(path):
                        out = "NO-FILE (complgen rc=%d: %s)" % (p.returncode, p.stderr.decode("utf-8", "replace").strip().splitlines()[:1])
                    else:
                        with open(path, encoding="utf-8", errors="surrogateescape") as fh:
                            text = fh.read()
                        os.unlink(path)
                        r = parse_dot(text)
                        if r["ok"]:
                            g = r["graph"]
                            out = "ok (%d nodes, %d edges, %d subgraphs)" % (len(g["nodes"]), len(g["edges"]), len(g["subgraphs"]))
                        else:
                            ln = int(r["error"].split()[1])
                            out = "INVALID " + r["error"]
                            lines.setdefault(out, text.split("\n")[ln - 1].strip() if ln else "")
                    res[k].setdefault(out, []).append(sh)
            print("G%02d  %s" % (gi + 1, gram))
            for k in ("dfa", "regex"):
                for out, shells in res[k].items():
                    rejected += out.startswith("INVALID")
                    print("     %-5s %-10s %s" % (k, "all shells" if len(shells) == len(SHELLS) else ",".join(shells), out))
                    if out in lines:
                        print("%22s| %s" % ("", lines[out]))
    print("part 2: %d grammars x %d shells; %d (grammar, dump kind, outcome) groups rejected as invalid DOT" % (len(GRAMMARS), len(SHELLS), rejected))


if __name__ == "__main__":
    failures = part1()
    here = os.path.dirname(os.path.dirname(os.path.abspath(__file__)))
    cands = sys.argv[1:2] + [os.environ.get("COMPLGEN_BIN", "")] + [os.path.join(here, "work", "target-bin", m, "complgen") for m in ("release", "debug")]
    binary = next((c for c in cands if c and os.access(c, os.X_OK)), None)
    if binary:
        part2(binary)
    else:
        print("part 2 skipped: no complgen binary found")
    sys.exit(1 if failures else 0)
