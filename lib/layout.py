# Layouts: the blank menu of spec/Syntax.tla as text, token records for TLC, rendering of a TLC-chosen layout.
import json
import core, gen

# same order as BlankShape in spec/Syntax.tla
BLANKS = ["", " ", "  ", "\t", "\n", "\n\n", " # note\n", "\n    ", "\f", " \n# a | b ; (c\n  ", " #\n", "\r\n"]


def default_ids(toks):
    """canonical layout as blank ids (0 none, 1 space, 4 newline)"""
    out = []
    for i, t in enumerate(toks):
        if i == 0:
            out.append(0)
        elif toks[i - 1]["kind"] == "semi":
            out.append(4)
        elif t["pre"] == "req":
            out.append(1)
        elif t["pre"] == "opt":
            out.append(1 if t["kind"] in ("bar", "bar2", "descr", "assign") or toks[i - 1]["kind"] in ("bar", "bar2", "assign") else 0)
        else:
            out.append(0)
    return out


def tok_records(toks):
    """what Syntax.tla needs to know about the tokens (no text)"""
    d = default_ids(toks)
    recs = []
    for i, t in enumerate(toks):
        s = t["s"]
        nl = s.count("\n")
        recs.append({"len": len(s), "nl": nl, "tail": len(s) - (s.rfind("\n") + 1) if nl else 0,
                     "pre": "opt" if i == 0 else t["pre"], "kind": t["kind"], "name": t.get("name", ""),
                     "node": t["node"] or 0, "stmt": t.get("stmt", 0), "dflt": d[i], "sh": t.get("shname", ""),
                     "shoff": (2 + len(t.get("name", ""))) if t.get("shname") else 0, "slash": t["kind"] == "cmdname" and "/" in t["s"]})
    return recs


def render(toks, blank_ids, trailer="\n"):
    return "".join(BLANKS[b] + t["s"] for t, b in zip(toks, blank_ids)) + trailer


def annotate(toks):
    """names for the tokens that carry one, statement index for every token"""
    stmt = 0
    for i, t in enumerate(toks):
        t["stmt"] = stmt
        if t["kind"] == "ref":
            t["name"] = t["s"][1:-1]
        elif t["kind"] == "defname":
            t["name"] = t["s"][1:-1].split("@")[0]
            t["shname"] = t["s"][1:-1].split("@")[1] if "@" in t["s"] else ""
        elif t["kind"] == "cmdname":
            t["name"] = t["s"]
        if t["kind"] == "semi":
            stmt += 1
    return toks


def generate(cases, mode="singles", maxdev=1, simulate=None, shards=8, limit_per_case=None, rnd=None):
    """cases carry 'toks' (tok_records) and 'id'; -> {id: [blank id lists]} chosen by TLC"""
    strip = [{"id": c["id"], "toks": c["toks"]} for c in cases]
    if mode == "singles":
        res = core.run_tlc_sharded("LayoutGen.tla", "LayoutSingles.cfg", strip, shards=shards, workers=2, prefix="layout")
    elif simulate:
        res = core.run_tlc_sharded("LayoutGen.tla", "LayoutGen.cfg", strip, shards=shards, workers=1, prefix="layoutsim",
                                   env={"MAXDEV": str(maxdev)}, extra=("-simulate", "num=%d" % simulate, "-depth", "400", "-seed", str(core.seed())))       # reproducible behaviours
    else:
        res = core.run_tlc_sharded("LayoutGen.tla", "LayoutGen.cfg", strip, shards=shards, workers=2, prefix="layoutgen", env={"MAXDEV": str(maxdev)})
    out = {}
    for r in res.tagged("REPLAY"):
        d = json.loads(r[0])
        out.setdefault(d["id"], []).append(d["blanks"])
    if limit_per_case and rnd:
        for k in out:
            if len(out[k]) > limit_per_case:
                out[k] = rnd.sample(out[k], limit_per_case)
    return out, res
