#!/usr/bin/env python3
# Self-test of lib/readers.py (debugging aid, not a check): for a fixed set of grammars and all four
# shells, emit the script with the complgen binary, read it back and compare with the minimised
# automaton recorded from the library by the harness recorder (simultaneous traversal from the starts).
import json
import os
import subprocess
import sys

sys.path.insert(0, os.path.dirname(os.path.abspath(__file__)))
import readers  # noqa: E402

ROOT = os.path.dirname(os.path.dirname(os.path.abspath(__file__)))
BIN = next((p for p in (ROOT + "/work/target-bin/release/complgen", ROOT + "/work/target-bin/debug/complgen") if os.path.exists(p)), "")
REC = ROOT + "/work/target-harness/debug/recorder"
SHELLS = ["bash", "fish", "zsh", "pwsh"]

GRAMMARS = [
    # plain words, alternatives, optionals, repetition
    'cmd a;', 'cmd a b c;', 'cmd (a|b) [c];', 'cmd [a] [b] c;', 'cmd a... b;', 'cmd (a b)... c;', 'cmd [a]... b;',
    'cmd a b | c d | e;', 'cmd a; cmd b c;', 'cmd (a | b c)... [d];',
    # descriptions
    'cmd a "first" | b "second";', 'cmd (a "x" | b "y")... c;', 'cmd --help "show help" | --version "show version" | -v;',
    'cmd a "same" | b "same" | c;', 'cmd x "d1" y | z x "d2";', 'cmd a "quo\\"te $HOME `id` back\\\\slash" | b "it\'s";',
    'cmd lit$x | li`t | l\\"q | sq\'x;', 'cmd b\\\\s | g*l?b | t~x | am&p!x | h#h;', 'cmd --o=(a$b|c\\"d|e`f "de$sc`r\\"i\\\\p") | --p=(\\(x\\)|\\[y\\]|\\<z\\>|\\{w\\}|\\|\\;|\\.);',
    'cmd a\\\\ b;',
    # fallbacks at top level
    'cmd a || b;', 'cmd (a | b) || c;', 'cmd (a "da" || b "db") c;', 'cmd a (b || c || d) e;', 'cmd (a || b)... c;',
    'cmd (a b || c d);', 'cmd [a || b] c;',
    # within-word expressions
    'cmd --opt=(a|b);', 'cmd --opt=(a "da"|b "db") foo;', 'cmd --x=(a|b) | --y=(c|d);', 'cmd --x=(a|b) | --y=(c|d|e);',
    'cmd --x=(a|b) --y=(c|d) --z=(e|f);', 'cmd (--x=(a|b) | --y=(c "dc"|d))... z;', 'cmd --x=(a|b) foo | --y=(c|d) bar | --z=(e|f|g) baz;',
    'cmd -o(a|b)[,c];', 'cmd (a|b)=(c|d);', 'cmd --k=(a|bb|ccc)... x;', 'cmd pre(a|b)post;',
    # fallbacks inside words
    'cmd --opt=(a || b);', 'cmd --opt=(a|b || c);', 'cmd (--x=(a||b) || --y=(c|d));', 'cmd --x=(a||b) | --y=(c||d) | --z=(e|f);',
    'cmd (foo || --x=(a|b));',
    # commands
    'cmd {{{ echo foo }}};', 'cmd {{{ echo foo }}} bar;', 'cmd a {{{ echo foo }}} | b {{{ echo bar }}};', 'cmd ({{{ echo foo }}} | x) y;',
    'cmd (a || {{{ echo foo }}});', 'cmd {{{ echo a }}} {{{ echo a }}} {{{ echo b }}};', 'cmd {{{ echo "q"; printf \'%s\\n\' x }}};',
    'cmd --opt={{{ echo foo }}};', 'cmd --opt={{{ echo foo }}} | --other={{{ echo bar }}};', 'cmd --opt=(a | {{{ echo foo }}});',
    'cmd {{{ echo foo }}}=(a|b);',
    # nonterminals
    'cmd <X>; <X> = a | b;', 'cmd <X> <Y>; <X> = a | b; <Y> = --o=<X>;', 'cmd <X>; <X@zsh> = {{{ _users }}}; <X@bash> = {{{ compgen -A user }}}; <X@fish> = {{{ __fish_complete_users }}}; <X@pwsh> = {{{ Get-LocalUser }}};',
    'cmd <X>; <X@zsh> = {{{ _users }}};', 'cmd <PATH>;', 'cmd <DIRECTORY> x;', 'cmd (<PATH> | --dir=<DIRECTORY>);', 'cmd --file=<PATH> | --user=<X>; <X@zsh> = {{{ _users }}}; <X> = {{{ echo u }}};',
    'cmd (a || <PATH>);', 'cmd -e <E>; <E> = [<q>=][!]<v>[,<v>]...; <q> = trace | read; <v> = %file | file | all;',
    # undefined nonterminals (any word)
    'cmd <U>;', 'cmd a <U> b;', 'cmd <U>... x;', 'cmd --opt=<U>;', 'cmd --opt=<U> | --x=(a|b);', 'cmd (a | <U>) c;', 'cmd <_> a;',
    'cmd --a=<U> --b=<V> | --c=(x|y);',
    # several commands offered in one state; multi-line command and description; known real discrepancies
    'cmd ({{{ echo a }}} | {{{ echo b }}}) x | y {{{ echo c }}};', 'cmd --o=({{{ echo a }}} | {{{ echo b }}}) x;',
    'cmd {{{ if true; then\n  echo a\n}\nfi }}} a "two\nlines" | --o=(x "sub\ndescr"|{{{ echo 1\n}\necho 2 }}});', 'cmd (a b || a c);',
    'cmd a "" | b;', 'cmd {{{ }}} x;', 'cmd --o={{{ }}};',
]
for _f in ("hello", "mygit", "mygrep"):  # the examples shipped with complgen, if present
    try:
        GRAMMARS.append(open("/repo/examples/%s.usage" % _f).read())
    except OSError:
        pass


# Differences found with this self-test that are REAL (script text vs compiled automaton), not reader bugs:
REAL = {
    ('cmd (a b || a c);', "*"): "one literal at two fallback levels from one state: the (state, literal id) match table keeps one target",
    ('cmd a\\\\ b;', "bash"): "bash constants do not escape backslash: \"a\\\" swallows its closing quote",
}
REAL_LOOKUP = "fish code indexes the table differently from the table's pairing ($tos[$subword_id]; flattened / unsplit command cells)"


def real(g, sh, bad):
    if all(": lookup: " in b for b in bad):
        return REAL_LOOKUP
    return REAL.get((g, sh)) or REAL.get((g, "*"))


EMPTY_CMD = {"bash": ":", "pwsh": "# empty command"}  # what these emitters print for an empty {{{ }}}


def label_key(l, shell, submap, recorded):
    d, hd = ("", False) if shell == "bash" else (l["d"], bool(l["hd"]) and l["d"] != "")
    t = l["t"].strip() if l["k"] in ("cmd", "compadd") else l["t"]
    if recorded and l["k"] in ("cmd", "compadd") and t == "":
        t = EMPTY_CMD.get(shell, "")
    return (l["k"], t, d, hd, l["lv"], submap(l["sub"]) if l["k"] == "sub" else 0)


def compare(a, b, shell, smap_a=lambda x: x, smap_b=lambda x: x, a_recorded=False):
    """a: automaton read from the script, b: recorded automaton -> list of disagreements ([] = same)"""
    out = {}
    for side, aut, sm in (("s", a, smap_a), ("r", b, smap_b)):
        for t in aut["tr"]:
            out.setdefault((side, t["f"]), {}).setdefault(label_key(t["l"], shell, sm, side == "r" or a_recorded), set()).add(t["t"])
    pair, inv, todo, bad = {a["start"]: b["start"]}, {b["start"]: a["start"]}, [(a["start"], b["start"])], []
    while todo and len(bad) < 5:
        x, y = todo.pop()
        ox, oy = out.get(("s", x), {}), out.get(("r", y), {})
        for k in sorted(set(ox) | set(oy), key=repr):
            if k not in ox or k not in oy:
                bad.append("state script %s / recorded %s: label %s only in %s" % (x, y, k, "script" if k in ox else "recorded"))
                continue
            if len(ox[k]) != 1 or len(oy[k]) != 1:
                bad.append("state %s/%s: label %s has targets %s / %s" % (x, y, k, sorted(ox[k]), sorted(oy[k])))
                continue
            tx, ty = list(ox[k])[0], list(oy[k])[0]
            if pair.get(tx, ty) != ty or inv.get(ty, tx) != tx:
                bad.append("state %s/%s: label %s leads to %s/%s but %s is paired with %s" % (x, y, k, tx, ty, tx, pair.get(tx, inv.get(ty))))
            elif tx not in pair:
                pair[tx], inv[ty] = ty, tx
                todo.append((tx, ty))
    return bad


def check(r, obs, shell):
    bad = []
    if not r["ok"]:
        return ["reader: " + r["error"]]
    for i, a in enumerate([r["main"]] + r["subs"]):
        bad += ["anomaly (%s): %s" % ("main" if i == 0 else "sub %d" % r["sub_ids"][i - 1], x) for x in a["anomalies"]]
    subs, msubs = r["subs"], obs["minsubs"]
    # script subword i (1-based) -> canonical = first recorded subword it is equivalent to
    canon = {}
    for i, s in enumerate(subs):
        eq = [j for j, m in enumerate(msubs) if not compare(s, m, shell)]
        canon[i + 1] = ("r", eq[0] + 1) if eq else ("s", i + 1)
        if not eq:
            why = compare(s, msubs[i], shell) if i < len(msubs) else ["no such recorded subword"]
            bad.append("subword %s matches no recorded within-word automaton; e.g. %s" % (r["sub_ids"][i], why[:2]))
    rcanon = {}
    for j, m in enumerate(msubs):  # recorded ones that are equivalent among themselves collapse too
        eq = [k for k in range(j + 1) if not compare(msubs[k], m, shell, a_recorded=True)]
        rcanon[j + 1] = ("r", eq[0] + 1)
    bad += compare(r["main"], obs["min"], shell, lambda x: canon.get(x, ("s", x)), lambda x: rcanon.get(x, ("r", x)))
    if len(subs) != len(msubs):
        bad.append("%d within-word functions in the script, %d recorded" % (len(subs), len(msubs)))
    return bad


def main():
    if not BIN or not os.path.exists(REC):
        print("complgen binary or recorder missing")
        return 2
    verbose = "-v" in sys.argv
    cases = [(g, sh) for g in GRAMMARS for sh in SHELLS]
    inp = "".join(json.dumps({"usage": g, "shell": sh}) + "\n" for g, sh in cases)
    rec = subprocess.run([REC, "compile"], input=inp, capture_output=True, text=True)
    lines = [json.loads(x) for x in rec.stdout.splitlines() if x.strip()]
    if len(lines) != len(cases):
        print("recorder returned %d lines for %d cases: %s" % (len(lines), len(cases), rec.stderr[-300:]))
        return 2
    stats = dict((sh, [0, 0, 0, 0]) for sh in SHELLS)  # same, different, not compiled, different for a known real reason
    shown = 0
    for (g, sh), line in zip(cases, lines):
        obs = line.get("obs", {})
        p = subprocess.run([BIN, "--" + sh, "-", "-"], input=g + "\n", capture_output=True, text=True)
        if p.returncode != 0 or obs.get("verdict") != "ok":
            stats[sh][2] += 1
            if verbose or (p.returncode == 0) != (obs.get("verdict") == "ok"):
                print("NOT COMPILED %-4s %s   (binary rc %d, recorder %s)" % (sh, json.dumps(g)[:160], p.returncode, obs.get("verdict")))
            continue
        r = readers.read_script(p.stdout, sh, obs.get("command", "cmd"))
        bad = check(r, obs, sh)
        if r.get("registered") != obs.get("command", "cmd"):
            bad.append("registered for %r" % r.get("registered"))
        consts = readers.string_constants(p.stdout, sh)
        want = sum(len(a["literals"]) for a in [r["main"]] + r["subs"]) if r["ok"] else 0
        if len([c for c in consts if c["role"] == "literal"]) != want:
            bad.append("string_constants: %d literal constants, %d literals" % (len([c for c in consts if c["role"] == "literal"]), want))
        json.dumps(r)  # must be serialisable
        why = real(g, sh, bad) if bad else None
        stats[sh][3 if why else 1 if bad else 0] += 1
        if bad and (shown < 16 or verbose):
            shown += 1
            print("%s %-4s %s" % ("REAL" if why else "DIFF", sh, json.dumps(g)[:120]))
            for b in ([why] if why else []) + bad[:3]:
                print("       " + b[:240])
    for sh in SHELLS:
        print("%-4s same %3d  different %3d  not compiled %3d  known real discrepancy %3d" % tuple([sh] + stats[sh]))
    return 1 if any(v[1] for v in stats.values()) else 0


if __name__ == "__main__":
    sys.exit(main())
