#!/bin/bash
# remove scratch worktrees of /repo and /verif and their build output (nothing a registered command needs lives there)
for d in /tmp/mslot-* /tmp/mut*-* ; do [ -d "$d" ] && (git -C /repo worktree remove --force "$d" 2>/dev/null || rm -rf "$d"); done
git -C /repo worktree prune
[ -d /tmp/verif-dev ] && (git -C /verif worktree remove --force /tmp/verif-dev 2>/dev/null || rm -rf /tmp/verif-dev)
git -C /verif worktree prune
rm -rf /tmp/mwork-* /tmp/ev-try /tmp/ev-dev /tmp/seed-evidence /tmp/vt /tmp/*.py /tmp/*.usage
rm -rf /verif/work/try /verif/work/seed2 /verif/work/seed3 /verif/work/ev-seed2 /verif/work/ev-seed3
