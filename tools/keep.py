#!/usr/bin/env python3
# tools/keep.py <src dir> <id> <property> <json with extra meta>
# Copies a confirmed seeded change (patch.diff, demonstration, notes) to /verif/seeded/<id>/ and writes meta.json.
import json, os, shutil, sys
src, mid, prop, extra = sys.argv[1], sys.argv[2], sys.argv[3], json.loads(sys.argv[4])
dst = os.path.join("/verif/seeded", mid)
os.makedirs(dst, exist_ok=True)
for f in os.listdir(src):
    p = os.path.join(src, f)
    if os.path.isfile(p) and os.path.getsize(p) < 200000:
        shutil.copy(p, os.path.join(dst, f))
meta = {"id": mid, "property": prop}
meta.update(extra)
json.dump(meta, open(os.path.join(dst, "meta.json"), "w"), indent=1)
print("kept", dst, sorted(os.listdir(dst)))
