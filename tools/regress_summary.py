#!/usr/bin/env python3
# tools/regress_summary.py : summary of the final regression (work/regress_*.log): every kept seeded change re-run against the checks that reported it
import glob, json, re, os
res = {}
for log in sorted(glob.glob("/verif/work/regress_*.log")):
    cur = None
    for line in open(log, errors="replace"):
        m = re.match(r"##### (\S+) (.*)", line)
        if m:
            cur = os.path.basename(m.group(1)); res[cur] = {}; continue
        m = re.match(r"(C\d\d): exit (\d+), (\d+) VIOLATION", line)
        if m and cur:
            res[cur][m.group(1)] = int(m.group(2))
        if "patch does not apply" in line and cur:
            res[cur]["_patch"] = "does not apply to HEAD"
tot = len(res)
caught = [k for k, v in res.items() if any(x == 1 for c, x in v.items() if c != "_patch")]
napp = [k for k, v in res.items() if "_patch" in v]
lost = [k for k, v in res.items() if k not in caught and k not in napp and v]
err = {k: v for k, v in res.items() if any(x == 2 for c, x in v.items() if c != "_patch")}
pending = [k for k, v in res.items() if not v]
print("re-run: %d, reported again by at least one check: %d, patch not applicable to HEAD: %d %s, no longer reported: %d %s, tool errors: %s, pending: %d" % (
    tot, len(caught), len(napp), napp, len(lost), lost, err, len(pending)))
partial = {k: v for k, v in res.items() if k in caught and any(x == 0 for x in v.values() if isinstance(x, int))}
print("reported by one of the two checks only:", partial)
json.dump(res, open("/verif/seeded/final_regression.json", "w"), indent=1, sort_keys=True)
