#!/usr/bin/env python3
# Evaluation of the machinery against seeded changes (DESIGN.md section 13).  Never part of a registered check.
#   tools/mutant.py confirm <dir with patch.diff + demo.*> <slot>      original: demo passes; patched: tests pass, demo fails
#   tools/mutant.py check   <dir with patch.diff> <slot> Cxx [Cyy ...] [--tier quick]
# A slot is a scratch worktree of /repo under /tmp/mslot-<slot> with its own work directory /tmp/mwork-<slot>; the checks run
# against it through VERIF_REPO / VERIF_WORK / VERIF_EVIDENCE_DIR, so /repo itself and /verif/evidence are never touched.
import json, os, subprocess, sys, time


def sh(cmd, cwd=None, env=None, timeout=3600):
    p = subprocess.run(cmd, cwd=cwd, env=env, capture_output=True, text=True, shell=isinstance(cmd, str), timeout=timeout)
    return p.returncode, p.stdout, p.stderr


def slot_dir(slot):
    d = "/tmp/mslot-%s" % slot
    if not os.path.isdir(d):
        rc, o, e = sh(["git", "-C", "/repo", "worktree", "add", "--detach", d, "HEAD"])
        if rc != 0:
            raise SystemExit("cannot create worktree: " + e)
    else:
        sh(["git", "checkout", "--detach", "-q", subprocess.run(["git", "-C", "/repo", "rev-parse", "HEAD"], capture_output=True, text=True).stdout.strip()], cwd=d)
    sh(["git", "checkout", "--", "."], cwd=d)
    sh(["git", "clean", "-fdq", "-e", "target"], cwd=d)
    return d


def find_demo(src):
    for n in ("demo.sh", "demo.py", "demo.bash"):
        if os.path.exists(os.path.join(src, n)):
            return n
    return None


def run_demo(src, d):
    name = find_demo(src)
    if not name:
        return None, "no demo"
    # demos refer to their own directory as scratch/mutantN relative to the repository root: mirror that layout
    rel = os.path.join("scratch", os.path.basename(os.path.abspath(src)))
    dst = os.path.join(d, rel)
    os.makedirs(os.path.dirname(dst), exist_ok=True)
    sh(["rm", "-rf", dst])
    sh(["cp", "-r", os.path.abspath(src), dst])
    cmd = ["bash", os.path.join(rel, name)] if name.endswith("sh") else ["python3", os.path.join(rel, name)]
    try:
        rc, o, e = sh(cmd, cwd=d, env=dict(os.environ, CARGO_NET_OFFLINE="true"), timeout=1800)
    except subprocess.TimeoutExpired:
        return 124, "timeout"
    return rc, (o + e)[-1500:]


def confirm(src, slot):
    d = slot_dir(slot)
    res = {}
    rc, out = run_demo(src, d)
    res["demo_on_original"] = rc
    sh(["git", "checkout", "--", "."], cwd=d)
    rc, o, e = sh(["git", "apply", os.path.abspath(os.path.join(src, "patch.diff"))], cwd=d)
    if rc != 0:
        res["apply"] = e
        print(json.dumps(res)); return 2
    rc, o, e = sh("cargo test --offline 2>&1 | grep -E 'test result|FAILED|error(\\[|:)' | head -5", cwd=d)
    res["tests"] = o.strip()
    rc, out = run_demo(src, d)
    res["demo_on_patched"] = rc
    res["demo_output_tail"] = out[-600:] if isinstance(out, str) else ""
    sh(["git", "checkout", "--", "."], cwd=d)
    sh(["git", "clean", "-fdq", "-e", "target"], cwd=d)
    ok = res["demo_on_original"] == 0 and res["demo_on_patched"] not in (0, None) and "59 passed; 0 failed" in res["tests"]
    res["confirmed"] = ok
    print(json.dumps(res, indent=1))
    return 0 if ok else 1


def check(src, slot, props, tier):
    d = slot_dir(slot)
    rc, o, e = sh(["git", "apply", os.path.abspath(os.path.join(src, "patch.diff"))], cwd=d)
    if rc != 0:
        print("patch does not apply: " + e); return 2
    work = "/tmp/mwork-%s" % slot
    env = dict(os.environ, VERIF_REPO=d, VERIF_WORK=work, VERIF_EVIDENCE_DIR=os.path.join(work, "evidence"))
    out = {}
    for p in props:
        t0 = time.time()
        pr = subprocess.run(["/verif/check", p, "--tier", tier], cwd="/verif", capture_output=True, text=True, env=env)
        viol = [l for l in pr.stdout.split("\n") if l.startswith("VIOLATION")]
        first = ""
        if viol:
            try:
                first = json.load(open(viol[0].split("replay=")[1].strip())).get("what", "")[:500]
            except Exception:
                pass
        out[p] = {"exit": pr.returncode, "violations": len(viol), "wall_s": round(time.time() - t0), "first": first,
                  "stderr_tail": pr.stderr[-800:] if pr.returncode == 2 else ""}
        print("%s: exit %d, %d VIOLATION line(s), %d s | %s%s" % (p, pr.returncode, len(viol), out[p]["wall_s"], first[:400], out[p]["stderr_tail"][-300:]), flush=True)
    sh(["git", "checkout", "--", "."], cwd=d)
    print(json.dumps(out))
    return 0


def main():
    a = sys.argv[1:]
    tier = "quick"
    if "--tier" in a:
        i = a.index("--tier"); tier = a[i + 1]; del a[i:i + 2]
    if a[0] == "confirm":
        return confirm(a[1], a[2])
    if a[0] == "check":
        return check(a[1], a[2], a[3:], tier)
    print(__doc__); return 2


if __name__ == "__main__":
    sys.exit(main())
