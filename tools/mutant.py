#!/usr/bin/env python3
# tools/mutant.py <seeded dir | patch file> <Cxx> [<Cyy> ...] [--tier quick]
# Applies a seeded change to /repo, runs the named checks, restores /repo, and prints which checks reported a violation.
# Used only to evaluate the machinery (DESIGN.md section 13); never part of a registered check.
import json, os, subprocess, sys, time

def main():
    args = sys.argv[1:]
    tier = "quick"
    if "--tier" in args:
        i = args.index("--tier"); tier = args[i + 1]; del args[i:i + 2]
    target, props = args[0], args[1:]
    patch = os.path.join(target, "patch.diff") if os.path.isdir(target) else target
    st = subprocess.run(["git", "-C", "/repo", "status", "--porcelain", "--untracked-files=no"], capture_output=True, text=True).stdout.strip()
    if st:
        print("refusing: /repo has uncommitted changes:\n" + st); return 2
    r = subprocess.run(["git", "-C", "/repo", "apply", os.path.abspath(patch)], capture_output=True, text=True)
    if r.returncode != 0:
        print("patch does not apply: " + r.stderr); return 2
    out = {}
    try:
        for p in props:
            t0 = time.time()
            pr = subprocess.run(["/verif/check", p, "--tier", tier], cwd="/verif", capture_output=True, text=True)
            viol = [l for l in pr.stdout.split("\n") if l.startswith("VIOLATION")]
            known = [l for l in pr.stdout.split("\n") if l.startswith("KNOWN-FINDING")]
            first = ""
            if viol:
                try:
                    rp = viol[0].split("replay=")[1].strip()
                    first = json.load(open(rp)).get("what", "")[:400]
                except Exception:
                    pass
            out[p] = {"exit": pr.returncode, "violations": len(viol), "known_lines": len(known), "wall_s": round(time.time() - t0), "first": first,
                      "stderr_tail": pr.stderr[-600:] if pr.returncode == 2 else ""}
            print("%s: exit %d, %d VIOLATION line(s), %d s  %s" % (p, pr.returncode, len(viol), out[p]["wall_s"], first[:300]), flush=True)
    finally:
        subprocess.run(["git", "-C", "/repo", "checkout", "--", "."], check=True)
    print(json.dumps(out))
    return 0

if __name__ == "__main__":
    sys.exit(main())
