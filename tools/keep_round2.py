#!/usr/bin/env python3
# tools/keep_round2.py : keep the second-round seeded changes (confirmed + checked by work/batch_*.sh) under /verif/seeded/<id>/
# with meta.json built from the agent's notes (title, "what it needs") and from the batch logs (confirmation, per-check outcome).
import glob, json, os, re, shutil, sys

SLUG = {
 "C01-1": "within-word-level-lost-at-top", "C01-2": "resolution-order-preorder", "C02-1": "definitions-resolved-against-snapshot",
 "C02-2": "description-copied-to-every-literal", "C03-1": "cleanup-keeps-merged-away-transitions", "C03-2": "initial-blocks-overlap",
 "C04-1": "literal-ids-by-text-only", "C04-2": "shared-double-quote-helper", "C05-1": "flatten-turns-fallback-into-alternative",
 "C05-2": "later-fallback-levels-lower-precedence", "C06-1": "max-level-ignores-within-word-items", "C06-2": "renderer-column-slices-out-of-line",
 "C07-1": "fish-backticks-escaped", "C07-2": "pwsh-escape-character-too-late", "C08-1": "tail-is-first-of-nested-sequence",
 "C08-2": "foreign-definitions-not-validated", "C09-1": "conflicting-description-check-unsorted", "C09-2": "empty-level-tables-not-emitted",
 "C10-1": "random-keyed-shape-hash", "C10-2": "builtins-memoised-per-thread", "C11-1": "subword-commands-numbered-per-automaton",
 "C11-2": "builtin-before-own-specialisation", "C12-1": "nontransitive-literal-order", "C12-2": "too-short-prefilter-off-by-one",
 "C13-1": "distributed-description-drags-group-span", "C13-2": "duplicate-definition-locations-swapped", "C14-1": "alternative-branches-in-arena-order",
 "C14-2": "described-literal-spends-group-description", "C15-1": "resolved-parent-before-grandchild", "C15-2": "any-same-named-definition-switches-builtin-off",
 "C16-1": "regex-dump-command-backslashes", "C16-2": "accepting-start-drawn-plain", "C17-1": "command-numbers-per-automaton",
 "C17-2": "leaf-level-written-in-place",
}


def parse_logs():
    out = {}
    for log in sorted(glob.glob("/verif/work/batch_*.log")):
        cur = None
        for line in open(log, errors="replace"):
            m = re.match(r"##### (\S+) (.*)", line)
            if m:
                cur = out.setdefault(m.group(1), {"checks": {}, "confirmed": None})
                continue
            if cur is None:
                continue
            if '"confirmed": true' in line:
                cur["confirmed"] = True
            elif '"confirmed": false' in line:
                cur["confirmed"] = False
            m = re.match(r"(C\d\d): exit (\d+), (\d+) VIOLATION line\(s\), (\d+) s \| ?(.*)", line)
            if m:
                prev = cur["checks"].get(m.group(1))
                cur["checks"][m.group(1)] = {"exit": int(m.group(2)), "violations": int(m.group(3)), "seconds": int(m.group(4)), "first": m.group(5).strip()[:400],
                                             "missed_before": bool(prev and (prev["exit"] == 0 or prev.get("missed_before")))}
    return out


def needs_of(notes):
    m = re.search(r"^#+[^\n]*(need|circumstance|manifest|condition)[^\n]*\n(.+?)(?=^#|\Z)", notes, re.I | re.M | re.S)
    if m:
        return " ".join(m.group(2).split())[:600]
    m = re.search(r"\*\*[^\n*]*(need|manifest|condition)[^\n*]*\*\*:?(.+?)(?=\n\n|\Z)", notes, re.I | re.S)
    return " ".join(m.group(2).split())[:600] if m else ""


ROUND3 = {   # by code area; property = the one the author names first
 "A-1": ("C08", "unbounded-test-after-visited-skip"), "A-2": ("C02", "regex-input-equality-ignores-description"),
 "B-1": ("C02", "dfa-hash-ignores-inputs"), "B-2": ("C08", "conflict-check-compares-disjoint-pairs"),
 "C-1": ("C04", "shape-test-ignores-level-tables"), "C-2": ("C10", "std-hashmap-in-zsh-emitter"),
 "D-1": ("C14", "empty-comment-not-skipped"), "D-2": ("C02", "flatten-merges-alternative-and-fallback-arms"),
 "E-1": ("C06", "destination-opened-before-automaton-checks"), "E-2": ("C15", "unused-specialization-warning-filtered"),
 "F-1": ("C08", "subword-spaces-check-memoised-by-name"), "F-2": ("C01", "wordbreak-first-occurrence"),
}


CLAIMS = {"R3-B-1": ["C02", "C01", "C04"], "R3-A-2": ["C02", "C04", "C16"], "R3-D-1": ["C05", "C14"], "R3-D-2": ["C02", "C01"], "R3-C-1": ["C04", "C01"],
          "R3-F-2": ["C01", "C12", "C17"], "C04-2": ["C04", "C07"], "C14-2": ["C14"], "C11-1": ["C11", "C04", "C17"], "C10-2": ["C10"]}


def main():
    logs = parse_logs()
    extra = json.load(open("/verif/tools/round2_notes.json")) if os.path.exists("/verif/tools/round2_notes.json") else {}
    todo = []
    for key, slug in sorted(SLUG.items()):
        prop, n = key.split("-")
        todo.append((key, prop, n, slug, "/tmp/mut2-%s/scratch/mutant%s" % (prop, n), "%sr2-m%s-%s" % (prop, n, slug), 2))
    for key, (prop, slug) in sorted(ROUND3.items()):
        area, n = key.split("-")
        todo.append(("R3-" + key, prop, n, slug, "/tmp/mut3-%s/scratch/mutant%s" % (area, n), "R3%s-m%s-%s" % (area, n, slug), 3))
    for key, prop, n, slug, src, mid, rnd in todo:
        if not os.path.isdir(src):
            print("missing", src)
            continue
        lg = logs.get(src)
        if not lg or not lg["confirmed"] or not lg["checks"]:
            print("not evaluated yet", src, lg and lg["confirmed"], lg and list(lg["checks"]))
            continue
        notes = open(os.path.join(src, "notes.md"), errors="replace").read() if os.path.exists(os.path.join(src, "notes.md")) else ""
        title = re.sub(r"^#+\s*(C\d\d\s*)?[Mm]utant\s*\d\s*[-:—]+\s*", "", notes.split("\n")[0]).strip()
        dst = os.path.join("/verif/seeded", mid)
        os.makedirs(dst, exist_ok=True)
        for f in os.listdir(src):
            p = os.path.join(src, f)
            if os.path.isfile(p) and os.path.getsize(p) < 200000:
                shutil.copy(p, os.path.join(dst, f))
        caught = {}
        for chk, r in sorted(lg["checks"].items()):
            if r["exit"] == 1:
                caught[chk] = ("MISSED by the quick tier at first (exit 0); after the strengthening described in `remark`: " if r.get("missed_before") else "") + \
                    "yes: %d VIOLATION lines; first: %s" % (r["violations"], r["first"])
            elif r["exit"] == 0:
                claimed = CLAIMS.get(key, [prop])
                caught[chk] = "MISSED by the quick tier (exit 0)" if chk in claimed else "nothing reported (exit 0); run as a neighbouring check, the author does not claim this property is broken"
            else:
                caught[chk] = "tool error (exit %d)" % r["exit"]
        for chk, txt in extra.get(key, {}).get("caught_by", {}).items():
            caught[chk] = (caught.get(chk, "") + "; " if chk in caught else "") + txt
        meta = {"id": mid, "property": prop, "round": rnd,
                "confirmed": {"tests_with_patch": "59 passed", "demo_on_original": 0, "demo_on_patched": "non-zero"},
                "ran": "tools/mutant.py confirm + check --tier quick (scratch worktree via VERIF_REPO)",
                "what": extra.get(key, {}).get("what", title), "needs": extra.get(key, {}).get("needs", needs_of(notes)), "caught_by": caught}
        old = os.path.join(dst, "meta.json")
        if os.path.exists(old):
            try:
                o = json.load(open(old))
                if "applies_to" in o:
                    meta["applies_to"] = o["applies_to"]
            except Exception:
                pass
        if key in extra and "remark" in extra[key]:
            meta["remark"] = extra[key]["remark"]
        json.dump(meta, open(os.path.join(dst, "meta.json"), "w"), indent=1)
        print("kept", mid, {k: v[:20] for k, v in caught.items()})


main()
