#!/usr/bin/env python3
# tools/status_table.py : table of the last quick (evidence/) and thorough (work/ev-thorough/) runs for DESIGN.md section 12
import glob, json, os, re
rows = []
for i in range(1, 18):
    pid = "C%02d" % i
    q = json.load(open("/verif/evidence/%s.json" % pid)) if os.path.exists("/verif/evidence/%s.json" % pid) else None
    tp = "/verif/evidence_thorough/%s.json" % pid
    t = json.load(open(tp)) if os.path.exists(tp) else None
    t = t if t and t.get("tier") == "thorough" else None

    def f(e, k):
        return "-" if not e else str(e["coverage"].get(k, "-"))
    kf = sorted(set((q or {}).get("coverage", {}).get("known_findings_hit", [])) | set((t or {}).get("coverage", {}).get("known_findings_hit", [])))
    rows.append("| %s | %s / %s | %s / %s | %s / %s | %s / %s | %s |" % (
        pid, "%.0f s" % q["wall_s"] if q else "-", "%.0f s" % t["wall_s"] if t else "-",
        f(q, "programs"), f(t, "programs"), f(q, "traces_validated_against_impl"), f(t, "traces_validated_against_impl"),
        f(q, "states"), f(t, "states"), str(len(kf)) if kf else "0"))
table = ("| property | wall time quick / thorough | grammars (programs) | observations of the real code validated by TLC | TLC distinct states | known-finding signatures hit |\n"
         "|---|---|---|---|---|---|\n" + "\n".join(rows) + "\n")
p = "/verif/DESIGN.md"
s = open(p).read()
s = re.sub(r"(<!-- status -->\n).*?(<!-- /status -->)", lambda m: m.group(1) + table + m.group(2), s, flags=re.S)
open(p, "w").write(s)
print(table)
