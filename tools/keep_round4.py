#!/usr/bin/env python3
# tools/keep_round4.py: keeps the round-4 seeded changes (worktrees /tmp/mut4-{A..D}) under /verif/seeded/ from the evaluation logs
# work/batch_r4{a,b,c,d}.log (tools/mutant.py confirm + check), one meta.json each.
import json, os, re, shutil, subprocess
HEAD = subprocess.run(["git", "-C", "/repo", "rev-parse", "--short", "HEAD"], capture_output=True, text=True).stdout.strip()
PLAN = {   # (log, section tag) -> (source dir, id, property)
    ("a", "R4A m1"): ("/tmp/mut4-A/scratch/mutant1", "R4A-m1-specialised-name-not-marked-used", "C15"),
    ("a", "R4A m2"): ("/tmp/mut4-A/scratch/mutant2", "R4A-m2-own-description-spends-the-pending-one", "C02"),
    ("b", "R4B m1"): ("/tmp/mut4-B/scratch/mutant1", "R4B-m1-command-candidates-not-longest-first", "C17"),
    ("b", "R4B m2"): ("/tmp/mut4-B/scratch/mutant2", "R4B-m2-within-word-literal-without-transition-consumed", "C01"),
    ("c", "R4C m1"): ("/tmp/mut4-C/scratch/mutant1", "R4C-m1-word-node-keeps-level-zero", "C01"),
    ("d", "R4D m1"): ("/tmp/mut4-D/scratch/mutant1", "R4D-m1-exit-edges-once-per-cluster", "C16"),
}
for (lg, tag), (src, mid, prop) in PLAN.items():
    path = "/verif/work/batch_r4%s.log" % lg
    if not os.path.exists(path) or not os.path.isdir(src):
        print("skip", mid); continue
    text = open(path).read()
    secs = re.split(r"^##### ", text, flags=re.M)
    conf, caught = None, {}
    for s in secs:
        if s.startswith(tag + " confirm"):
            try:
                conf = json.loads(s[s.index("{"):s.rindex("}") + 1])
            except Exception:
                conf = None
        elif s.startswith(tag + " check"):
            for m in re.finditer(r"^(C\d\d): exit (\d+), (\d+) VIOLATION line\(s\), (\d+) s \| ?(.*)$", s, flags=re.M):
                caught[m.group(1)] = ("yes: %s VIOLATION lines; first: %s" % (m.group(3), m.group(5)[:400])) if m.group(2) == "1" else (
                    "MISSED by the quick tier (exit 0)" if m.group(2) == "0" else "tool error (exit %s)" % m.group(2))
    if not conf or not conf.get("confirmed") or not caught:
        print("not complete:", mid, bool(conf), caught); continue
    notes = open(os.path.join(src, "notes.md")).read()
    what = notes.split("\n", 1)[0].lstrip("# ").split(" - ", 1)[-1]
    m = re.search(r"^#+[^\n]*needs[^\n]*\n(.*?)(?=^#|\Z)", notes, flags=re.M | re.S | re.I)
    needs = " ".join(m.group(1).split())[:700] if m else ""
    dst = os.path.join("/verif/seeded", mid)
    os.makedirs(dst, exist_ok=True)
    for f in os.listdir(src):
        p = os.path.join(src, f)
        if os.path.isfile(p) and os.path.getsize(p) < 200000:
            shutil.copy(p, os.path.join(dst, f))
    meta = {"id": mid, "property": prop, "round": 4,
            "confirmed": {"tests_with_patch": "59 passed" if "59 passed" in conf.get("tests", "") else conf.get("tests", "")[:80],
                          "demo_on_original": conf.get("demo_on_original"), "demo_on_patched": "non-zero" if conf.get("demo_on_patched") else conf.get("demo_on_patched")},
            "ran": "tools/mutant.py confirm + check --tier quick (scratch worktree via VERIF_REPO)", "what": what, "needs": needs,
            "caught_by": caught, "applies_to": HEAD + " (HEAD of /repo in round 4)"}
    json.dump(meta, open(os.path.join(dst, "meta.json"), "w"), indent=1)
    print("kept", mid, {k: v[:12] for k, v in caught.items()})
