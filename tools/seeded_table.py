#!/usr/bin/env python3
# tools/seeded_table.py <round> : markdown rows for DESIGN.md section 14 from /verif/seeded/*/meta.json
import glob, json, re, sys
rnd = int(sys.argv[1])


def short(s, n):
    s = " ".join(s.split()).replace("|", "\\|")
    if len(s) <= n:
        return s
    cut = s[:n]
    k = max(cut.rfind(". "), cut.rfind("; "), cut.rfind(", "))
    return (cut[:k] if k > n // 2 else cut.rsplit(" ", 1)[0]) + " ..."


for p in sorted(glob.glob("/verif/seeded/*/meta.json")):
    m = json.load(open(p))
    if m.get("round", 1) != rnd:
        continue
    mid = re.sub(r"-m(\d).*", r"-m\1", m["id"])
    yes, later, no = [], [], []
    for chk, txt in sorted(m["caught_by"].items()):
        if "MISSED by the quick tier at first" in txt:
            later.append(chk)
        elif txt.startswith("MISSED"):
            no.append(chk)
        elif txt.startswith("yes") or "; yes" in txt:
            yes.append(chk)
    cb = []
    if yes:
        cb.append(", ".join(yes))
    if later:
        cb.append("**missed at first, after strengthening: %s**" % ", ".join(later))
    if no:
        cb.append("**not reported by %s**" % ", ".join(no))
    note = " (%s)" % short(m["remark"], 220) if m.get("remark") else ""
    print("| %s %s | %s | %s%s |" % (mid, short(m["what"], 140), short(m["needs"], 200), "; ".join(cb), note))
