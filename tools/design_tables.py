#!/usr/bin/env python3
# tools/design_tables.py : fill the seeded-change tables of DESIGN.md (between the <!-- seeded:roundN --> markers) from seeded/*/meta.json
import re, subprocess
p = "/verif/DESIGN.md"
s = open(p).read()
for rnd in (2, 3, 4):
    rows = subprocess.run(["python3", "/verif/tools/seeded_table.py", str(rnd)], capture_output=True, text=True).stdout
    s = re.sub(r"(<!-- seeded:round%d -->\n).*?(<!-- /seeded:round%d -->)" % (rnd, rnd), lambda m: m.group(1) + rows + m.group(2), s, flags=re.S)
open(p, "w").write(s)
print("tables written")
