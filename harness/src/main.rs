// Recorder: runs the real complgen library pipeline on NDJSON cases and records what it did.
// It contains no oracle: it executes, projects and serialises.  One JSON line in, one out.
//
//   recorder compile   {usage, shell, ..} -> + obs{verdict, err, warn, raw, min, rawsubs, minsubs}
//   recorder parse     {usage, ..}        -> + obs{ok, statements | err}
//   recorder repeat N  {usage, shell, ..} -> + obs{same: bool, n}   (in-process purity, C10)
use complgen::check::ValidGrammar;
use complgen::dfa::{DFA, Inp};
use complgen::parse::{Expr, ExprId, Grammar, HumanSpan, Shell, Statement};
use complgen::regex::{Regex, RegexInternPool};
use complgen::Error;
use serde_json::{Value, json};
use std::io::{BufRead, Write};

fn sp(s: &HumanSpan) -> Value {
    json!([s.line, s.column_start, s.column_end])
}

fn shell_of(s: &str) -> Shell {
    match s {
        "bash" => Shell::Bash,
        "fish" => Shell::Fish,
        "zsh" => Shell::Zsh,
        _ => Shell::Pwsh,
    }
}

fn label(dfa: &DFA, inp: &Inp, subs: &mut Vec<Value>, subids: &mut Vec<usize>) -> Value {
    match inp {
        Inp::Literal {
            literal,
            description,
            fallback_level,
        } => {
            json!({"k":"lit","t":literal.as_str(),"d":description.map(|d| d.as_str().to_string()).unwrap_or_default(),"hd":description.is_some(),"lv":fallback_level,"sub":0,
                   "cp":literal.as_str().chars().map(|c| c as u32).collect::<Vec<u32>>()})
        }
        Inp::Command {
            cmd,
            fallback_level,
        } => json!({"k":"cmd","t":cmd.as_str(),"d":"","hd":false,"lv":fallback_level,"sub":0,"cp":[]}),
        Inp::Compadd {
            cmd,
            fallback_level,
        } => json!({"k":"compadd","t":cmd.as_str(),"d":"","hd":false,"lv":fallback_level,"sub":0,"cp":[]}),
        Inp::Star => json!({"k":"star","t":"","d":"","hd":false,"lv":0,"sub":0,"cp":[]}),
        Inp::Subword {
            subdfa,
            fallback_level,
        } => {
            // one entry per distinct DFAId, so that identity of within-word automata is visible
            let idx = subdfa.verif_index();
            let pos = match subids.iter().position(|x| *x == idx) {
                Some(p) => p,
                None => {
                    let sd = dfa.verif_subdfa(*subdfa);
                    let v = dump(sd, &mut Vec::new(), &mut Vec::new());
                    subs.push(v);
                    subids.push(idx);
                    subs.len() - 1
                }
            };
            json!({"k":"sub","t":"","d":"","hd":false,"lv":fallback_level,"sub":pos + 1,"cp":[]})
        }
    }
}

fn dump(dfa: &DFA, subs: &mut Vec<Value>, subids: &mut Vec<usize>) -> Value {
    let mut tr = vec![];
    for (from, tos) in &dfa.transitions {
        for (inp, to) in tos {
            let l = label(dfa, dfa.verif_input(*inp), subs, subids);
            tr.push(json!({"f":from,"l":l,"t":to,"i":inp.verif_index()}));
        }
    }
    let acc: Vec<u32> = dfa.accepting_states.iter().collect();
    let ninp = dfa.verif_inputs().count();
    json!({"start":dfa.starting_state,"acc":acc,"tr":tr,"ninp":ninp})
}

fn err_json(e: &Error) -> Value {
    match e {
        Error::ParseError(s) => json!({"class":"parse","spans":[sp(s)]}),
        Error::MissingCallVariants => json!({"class":"missing_variants","spans":[]}),
        Error::InvalidCommandName(s) => json!({"class":"invalid_name","spans":[sp(s)]}),
        Error::VaryingCommandNames(ss) => {
            json!({"class":"varying_names","spans":ss.iter().map(sp).collect::<Vec<_>>()})
        }
        Error::NonterminalDefinitionsCycle(ss) => {
            json!({"class":"cycle","spans":ss.iter().map(sp).collect::<Vec<_>>()})
        }
        Error::DuplicateNonterminalDefinition(a, b) => {
            json!({"class":"duplicate_def","spans":[sp(b), sp(a)]})
        }
        Error::UnknownShell(s) => json!({"class":"unknown_shell","spans":[sp(s)]}),
        Error::NonCommandSpecialization(s) => json!({"class":"noncommand_spec","spans":[sp(s)]}),
        Error::UnboundedMatchable(a, b) => json!({"class":"unbounded","spans":[sp(a), sp(b)]}),
        Error::ConflictingDescriptions(_, lit, l, r) => {
            json!({"class":"conflicting_descr","spans":[],"lit":lit.as_str(),"l":l.as_str(),"r":r.as_str()})
        }
        Error::SubwordSpaces(a, b, tr) => {
            let mut v = vec![sp(a), sp(b)];
            v.extend(tr.iter().map(sp));
            json!({"class":"subword_spaces","spans":v})
        }
        Error::AmbiguousDFA(_, _) => json!({"class":"ambiguous_dfa","spans":[]}),
        _ => json!({"class":"other","spans":[]}),
    }
}

fn compile(usage: &str, shell: Shell) -> Value {
    let g = match Grammar::parse(usage) {
        Ok(g) => g,
        Err(e) => return json!({"verdict":"error","phase":"parse","err":err_json(&e)}),
    };
    let vg = match ValidGrammar::from_grammar(g, shell) {
        Ok(v) => v,
        Err(e) => return json!({"verdict":"error","phase":"validate","err":err_json(&e)}),
    };
    let mut pool = RegexInternPool::default();
    let re = match Regex::from_valid_grammar(&vg, &mut pool) {
        Ok(r) => r,
        Err(e) => return json!({"verdict":"error","phase":"regex","err":err_json(&e)}),
    };
    // warnings are observed on the command's stderr (C15), not through the library's fields
    let warn = json!({});
    let nregex = pool.verif_len();
    let raw = match DFA::from_regex_raw(re, &pool) {
        Ok(d) => d,
        Err(e) => return json!({"verdict":"error","phase":"dfa","err":err_json(&e),"warn":warn}),
    };
    let mut rsubs = vec![];
    let rawv = dump(&raw, &mut rsubs, &mut vec![]);
    let min = raw.minimize();
    let mut msubs = vec![];
    let minv = dump(&min, &mut msubs, &mut vec![]);
    if let Err(e) = min.check_ambiguity_best_effort() {
        return json!({"verdict":"error","phase":"ambiguity","err":err_json(&e),"warn":warn,
                      "raw":rawv,"rawsubs":rsubs,"min":minv,"minsubs":msubs});
    }
    json!({"verdict":"ok","command":vg.command.as_str(),"warn":warn,"nregex":nregex,
           "raw":rawv,"rawsubs":rsubs,"min":minv,"minsubs":msubs})
}

/// raw automaton + the events do_minimize reported while minimising it (top-level automaton only)
fn mintrace(usage: &str, shell: Shell) -> Value {
    let g = match Grammar::parse(usage) {
        Ok(g) => g,
        Err(_) => return json!({"verdict":"error"}),
    };
    let vg = match ValidGrammar::from_grammar(g, shell) {
        Ok(v) => v,
        Err(_) => return json!({"verdict":"error"}),
    };
    let mut pool = RegexInternPool::default();
    let re = match Regex::from_valid_grammar(&vg, &mut pool) {
        Ok(r) => r,
        Err(_) => return json!({"verdict":"error"}),
    };
    complgen::verif::drain();
    complgen::verif::enable(true);
    let raw = DFA::from_regex_raw(re, &pool);
    complgen::verif::enable(false);
    // the subset construction's events, one segment per automaton built (within-word automata first, the top-level one last)
    let mut sc: Vec<Value> = vec![];
    for e in complgen::verif::drain().iter().filter_map(|e| serde_json::from_str::<Value>(e).ok()) {
        let ev = e["ev"].as_str().unwrap_or("").to_string();
        if ev == "sc_init" {
            let mut seg = e.clone();
            seg["events"] = json!([]);
            sc.push(seg);
        } else if ev.starts_with("sc_") {
            if let Some(seg) = sc.last_mut() {
                seg["events"].as_array_mut().unwrap().push(e);
            }
        }
    }
    let raw = match raw {
        Ok(d) => d,
        Err(_) => return json!({"verdict":"error"}),
    };
    let rawv = dump(&raw, &mut vec![], &mut vec![]);
    complgen::verif::drain();
    complgen::verif::enable(true);
    let min = raw.minimize();
    complgen::verif::enable(false);
    let events: Vec<Value> = complgen::verif::drain().iter().filter_map(|e| serde_json::from_str(e).ok()).collect();
    let minv = dump(&min, &mut vec![], &mut vec![]);
    json!({"verdict":"ok","raw":rawv,"min":minv,"events":events,"sc":sc})
}

/// verdict of validation + the events get_nonterminals_resolution_order reported (hook events ro_*)
fn order(usage: &str, shell: Shell) -> Value {
    let g = match Grammar::parse(usage) {
        Ok(g) => g,
        Err(e) => return json!({"verdict":"error","phase":"parse","err":err_json(&e),"events":[]}),
    };
    complgen::verif::drain();
    complgen::verif::enable(true);
    let r = ValidGrammar::from_grammar(g, shell);
    complgen::verif::enable(false);
    let events: Vec<Value> = complgen::verif::drain()
        .iter()
        .filter_map(|e| serde_json::from_str::<Value>(e).ok())
        .filter(|e| e["ev"].as_str().unwrap_or("").starts_with("ro_"))
        .collect();
    match r {
        Ok(_) => json!({"verdict":"ok","events":events}),
        Err(e) => json!({"verdict":"error","phase":"validate","err":err_json(&e),"events":events}),
    }
}

fn tree(a: &[Expr], id: ExprId) -> Value {
    match &a[id] {
        Expr::Terminal {
            term, descr, span, ..
        } => match descr {
            Some(d) => json!({"k":"lit","t":term.as_str(),"d":d.as_str(),"hd":true,"c":[],"sp":sp(span)}),
            None => json!({"k":"lit","t":term.as_str(),"d":"","hd":false,"c":[],"sp":sp(span)}),
        },
        Expr::NontermRef { nonterm, span, .. } => {
            json!({"k":"ref","t":nonterm.as_str(),"d":"","hd":false,"c":[],"sp":sp(span)})
        }
        Expr::Command { cmd, span, .. } => {
            json!({"k":"cmd","t":cmd.as_str(),"d":"","hd":false,"c":[],"sp":sp(span)})
        }
        Expr::Sequence { children, span } => {
            json!({"k":"seq","t":"","d":"","hd":false,"c":children.iter().map(|c| tree(a, *c)).collect::<Vec<_>>(),"sp":sp(span)})
        }
        Expr::Alternative { children, span } => {
            json!({"k":"alt","t":"","d":"","hd":false,"c":children.iter().map(|c| tree(a, *c)).collect::<Vec<_>>(),"sp":sp(span)})
        }
        Expr::Fallback { children, span } => {
            json!({"k":"fb","t":"","d":"","hd":false,"c":children.iter().map(|c| tree(a, *c)).collect::<Vec<_>>(),"sp":sp(span)})
        }
        Expr::Optional { child, span } => {
            json!({"k":"opt","t":"","d":"","hd":false,"c":[tree(a, *child)],"sp":sp(span)})
        }
        Expr::Many1 { child, span } => {
            json!({"k":"many","t":"","d":"","hd":false,"c":[tree(a, *child)],"sp":sp(span)})
        }
        Expr::DistributiveDescription { child, descr, span } => {
            json!({"k":"dd","t":descr.as_str(),"d":"","hd":false,"c":[tree(a, *child)],"sp":sp(span)})
        }
        Expr::Subword { root_id, span, .. } => {
            // a within-word node is a node over the flattened factors
            let inner = tree(a, *root_id);
            let kids = if inner["k"] == "seq" { inner["c"].clone() } else { json!([inner]) };
            json!({"k":"sub","t":"","d":"","hd":false,"c":kids,"sp":sp(span)})
        }
    }
}

fn parse_only(usage: &str) -> Value {
    match Grammar::parse(usage) {
        Ok(g) => {
            let st: Vec<Value> = g
                .statements
                .iter()
                .map(|s| match s {
                    Statement::CallVariant {
                        name,
                        name_span,
                        expr,
                    } => {
                        json!({"kind":"variant","name":name.as_str(),"sh":"","span":sp(name_span),"tree":tree(&g.arena, *expr)})
                    }
                    Statement::NonterminalDefinition(d) => {
                        json!({"kind":"def","name":d.verif_lhs_name().as_str(),"span":sp(&d.verif_lhs_span()),
                               "sh":d.verif_shell().map(|(s,_)| s.as_str().to_string()).unwrap_or_default(),
                               "hassh":d.verif_shell().is_some(),
                               "shspan":d.verif_shell().map(|(_,s)| sp(&s)).unwrap_or(json!([0,0,0])),
                               "tree":tree(&g.arena, d.verif_rhs())})
                    }
                })
                .collect();
            json!({"ok":true,"statements":st})
        }
        Err(e) => json!({"ok":false,"err":err_json(&e)}),
    }
}

fn emit(usage: &str, shell: Shell, shname: &str) -> Option<Vec<u8>> {
    let g = Grammar::parse(usage).ok()?;
    let vg = ValidGrammar::from_grammar(g, shell).ok()?;
    let mut pool = RegexInternPool::default();
    let re = Regex::from_valid_grammar(&vg, &mut pool).ok()?;
    let mut out: Vec<u8> = vec![];
    re.to_dot(&mut out, &pool).ok()?;
    let dfa = DFA::from_regex_raw(re, &pool).ok()?.minimize();
    let start = match shname {
        "bash" => complgen::bash::ARRAY_START,
        "fish" => complgen::fish::ARRAY_START,
        "zsh" => complgen::zsh::ARRAY_START,
        _ => complgen::pwsh::ARRAY_START,
    };
    dfa.to_dot(&mut out, start).ok()?;
    dfa.check_ambiguity_best_effort().ok()?;
    match shname {
        "bash" => complgen::bash::write_completion_script(&mut out, &vg.command, &dfa).ok()?,
        "fish" => complgen::fish::write_completion_script(&mut out, &vg.command, &dfa).ok()?,
        "zsh" => complgen::zsh::write_completion_script(&mut out, &vg.command, &dfa).ok()?,
        _ => complgen::pwsh::write_completion_script(&mut out, &vg.command, &dfa).ok()?,
    }
    Some(out)
}

fn hash(b: &[u8]) -> String {
    // FNV-1a 64; only used to compare outputs of one process with each other
    let mut h: u64 = 0xcbf29ce484222325;
    for x in b {
        h ^= *x as u64;
        h = h.wrapping_mul(0x100000001b3);
    }
    format!("{:016x}:{}", h, b.len())
}

// ---------------------------------------------------------------------------------------------
// In-process command line front end (see build.rs): /repo/src/main.rs compiled as a module.
pub mod clishim {
    pub struct ExitStatus(pub i32);
    pub fn exit(code: i32) -> ! {
        std::panic::panic_any(ExitStatus(code))
    }
}

#[allow(dead_code, unused_imports)]
mod cli {
    include!(concat!(env!("OUT_DIR"), "/cli_main.rs"));

    /// what `fn main() -> anyhow::Result<()>` does with the command line `argv`, as an exit status
    pub fn run(argv: Vec<String>) -> i32 {
        let args = match Cli::try_parse_from(argv) {
            Ok(a) => a,
            Err(e) => {
                eprintln!("{e}");
                return 2;
            }
        };
        if args.version {
            println!("{}", env!("COMPLGEN_VERSION"));
            return 0;
        }
        match std::panic::catch_unwind(std::panic::AssertUnwindSafe(|| aot(&args))) {
            Ok(Ok(())) => 0,
            Ok(Err(e)) => {
                eprintln!("Error: {e:?}");
                1
            }
            Err(p) => match p.downcast_ref::<crate::clishim::ExitStatus>() {
                Some(s) => s.0,
                None => 101,
            },
        }
    }
}

struct Redirect {
    saved: i32,
    fd: i32,
}

impl Redirect {
    fn to_file(fd: i32, path: &std::path::Path) -> Redirect {
        use std::os::fd::IntoRawFd;
        let f = std::fs::File::create(path).unwrap().into_raw_fd();
        unsafe {
            let saved = libc::dup(fd);
            libc::dup2(f, fd);
            libc::close(f);
            Redirect { saved, fd }
        }
    }
}

impl Drop for Redirect {
    fn drop(&mut self) {
        unsafe {
            libc::dup2(self.saved, self.fd);
            libc::close(self.saved);
        }
    }
}

/// the script without the line that carries complgen's version (`git describe` at build time)
fn strip_signature(b: &[u8]) -> Vec<u8> {
    let mut out = Vec::with_capacity(b.len());
    for line in b.split_inclusive(|c| *c == b'\n') {
        let is_sig = line.windows(44).any(|w| w == b"generated by https://github.com/adaszko/comp");
        if !is_sig {
            out.extend_from_slice(line);
        }
    }
    out
}

fn read_lossy(p: &std::path::Path, cap: usize) -> (String, usize) {
    match std::fs::read(p) {
        Ok(b) => {
            let n = b.len();
            let s = String::from_utf8_lossy(&b[..n.min(cap)]).to_string();
            (s, n)
        }
        Err(_) => (String::new(), 0),
    }
}

/// one run of the command line front end: files in `dir`, stdout/stderr captured through fd redirection
fn cli_case(v: &Value, dir: &std::path::Path) -> Value {
    let shname = v["shell"].as_str().unwrap_or("bash");
    let opt = &v["opt"];
    let dest_mode = opt["dest"].as_str().unwrap_or("file");
    let inp = dir.join(opt["inname"].as_str().unwrap_or("in.usage"));
    let bytes: Vec<u8> = match v.get("usage_b") {
        Some(Value::Array(a)) => a.iter().map(|x| x.as_u64().unwrap_or(0) as u8).collect(),
        _ => v["usage"].as_str().unwrap_or("").as_bytes().to_vec(),
    };
    if opt["input"].as_str() != Some("missing") {
        std::fs::write(&inp, &bytes).unwrap();
    } else {
        let _ = std::fs::remove_file(&inp);
    }
    let dest = dir.join(opt["destname"].as_str().unwrap_or("out.script"));
    let _ = std::fs::remove_file(&dest);
    const OLD: &[u8] = b"previous content of the destination\n";
    let dest_arg: String = match dest_mode {
        "stdout" => "-".to_string(),
        "existing" => {
            std::fs::write(&dest, OLD).unwrap();
            dest.to_string_lossy().to_string()
        }
        "unwritable" => dir.join("no-such-dir/out.script").to_string_lossy().to_string(),
        _ => dest.to_string_lossy().to_string(),
    };
    let dfa = dir.join("out.dfa.dot");
    let regex = dir.join("out.regex.dot");
    let _ = std::fs::remove_file(&dfa);
    let _ = std::fs::remove_file(&regex);
    let mut argv: Vec<String> = vec!["complgen".into(), format!("--{shname}"), dest_arg, inp.to_string_lossy().to_string()];
    if opt["dfa"].as_bool() == Some(true) {
        argv.push("--dfa".into());
        argv.push(dfa.to_string_lossy().to_string());
    }
    if opt["regex"].as_bool() == Some(true) {
        argv.push("--regex".into());
        argv.push(regex.to_string_lossy().to_string());
    }
    let errp = dir.join("stderr.txt");
    let outp = dir.join("stdout.txt");
    let t0 = std::time::Instant::now();
    let code = {
        let _e = Redirect::to_file(2, &errp);
        let _o = Redirect::to_file(1, &outp);
        let c = cli::run(argv);
        let _ = std::io::stdout().flush();
        c
    };
    let ms = t0.elapsed().as_millis() as u64;
    let keep = opt["keep"].as_bool() == Some(true);
    let (stderr, errlen) = read_lossy(&errp, 6000);
    let (stdout_txt, outlen) = read_lossy(&outp, if keep { 4_000_000 } else { 0 });
    let dest_state = if dest_mode == "stdout" || dest_mode == "unwritable" {
        "na"
    } else {
        match std::fs::read(&dest) {
            Err(_) => "absent",
            Ok(b) if dest_mode == "existing" && b == OLD => "unchanged",
            Ok(_) => "written",
        }
    };
    let script_bytes = if dest_mode == "stdout" { std::fs::read(&outp).unwrap_or_default() } else { std::fs::read(&dest).unwrap_or_default() };
    let tail: String = String::from_utf8_lossy(&script_bytes[script_bytes.len().saturating_sub(200)..]).to_string();
    let mut o = json!({"exit":code,"stderr":stderr,"stderr_len":errlen,"stdout_len":outlen,"dest":dest_state,
                       "script_len":script_bytes.len(),"script_hash":hash(&strip_signature(&script_bytes)),"script_tail":tail,"ms":ms,
                       "dfa_exists":dfa.exists(),"regex_exists":regex.exists()});
    if keep {
        o["script"] = json!(String::from_utf8_lossy(&script_bytes).to_string());
        o["stdout"] = json!(stdout_txt);
        o["dfa"] = json!(read_lossy(&dfa, 4_000_000).0);
        o["regex"] = json!(read_lossy(&regex, 4_000_000).0);
    } else {
        o["dfa_hash"] = json!(hash(&std::fs::read(&dfa).unwrap_or_default()));
        o["regex_hash"] = json!(hash(&std::fs::read(&regex).unwrap_or_default()));
    }
    o
}

fn main() {
    let args: Vec<String> = std::env::args().collect();
    let mode = args.get(1).map(|s| s.as_str()).unwrap_or("compile").to_string();
    let n: usize = args.get(2).and_then(|s| s.parse().ok()).unwrap_or(3);
    std::panic::set_hook(Box::new(|info| {
        // exit statuses travel as panics (clishim); real panics are reported on stderr like the default hook does
        if info.payload().downcast_ref::<clishim::ExitStatus>().is_none() {
            let msg = info.payload().downcast_ref::<String>().cloned()
                .or_else(|| info.payload().downcast_ref::<&str>().map(|s| s.to_string())).unwrap_or_default();
            let loc = info.location().map(|l| format!("{}:{}:{}", l.file(), l.line(), l.column())).unwrap_or_default();
            eprintln!("thread 'main' panicked at {loc}:\n{msg}");
        }
    }));
    let stdin = std::io::stdin();
    // results go to a private duplicate of fd 1, because fd 1 and 2 are redirected per case in `cli` mode
    let mut out = unsafe {
        use std::os::fd::FromRawFd;
        std::fs::File::from_raw_fd(libc::dup(1))
    };
    let quiet = mode != "cli";
    let _quiet_stderr = if quiet { Some(Redirect::to_file(2, std::path::Path::new("/dev/null"))) } else { None };
    let tmpdir = std::path::PathBuf::from(args.get(2).cloned().unwrap_or_else(|| "/tmp".into())).join(format!("cli-{}", std::process::id()));
    if mode == "cli" {
        std::fs::create_dir_all(&tmpdir).unwrap();
    }
    for line in stdin.lock().lines() {
        let line = line.unwrap();
        if line.trim().is_empty() {
            continue;
        }
        let mut v: Value = serde_json::from_str(&line).unwrap();
        let usage = v["usage"].as_str().unwrap_or("").to_string();
        let shname = v["shell"].as_str().unwrap_or("bash").to_string();
        let shell = shell_of(&shname);
        let obs = match mode.as_str() {
            "compile" => {
                let u = usage.clone();
                match std::panic::catch_unwind(move || compile(&u, shell)) {
                    Ok(o) => o,
                    Err(p) => {
                        let msg = p
                            .downcast_ref::<String>()
                            .cloned()
                            .or_else(|| p.downcast_ref::<&str>().map(|s| s.to_string()))
                            .unwrap_or_default();
                        json!({"verdict":"panic","msg":msg})
                    }
                }
            }
            "parse" => {
                let u = usage.clone();
                match std::panic::catch_unwind(move || parse_only(&u)) {
                    Ok(o) => o,
                    Err(_) => json!({"ok":false,"panic":true}),
                }
            }
            "repeat" => {
                let u = usage.clone();
                let s = shname.clone();
                match std::panic::catch_unwind(move || {
                    let hs: Vec<Option<String>> =
                        (0..n).map(|_| emit(&u, shell, &s).map(|b| hash(&b))).collect();
                    let same = hs.iter().all(|h| *h == hs[0]);
                    json!({"same":same,"n":n,"ok":hs[0].is_some(),"h":hs[0].clone().unwrap_or_default()})
                }) {
                    Ok(o) => o,
                    Err(_) => json!({"same":false,"n":n,"ok":false,"panic":true,"h":""}),
                }
            }
            "cli" => cli_case(&v, &tmpdir),
            "order" => {
                let u = usage.clone();
                match std::panic::catch_unwind(move || order(&u, shell)) {
                    Ok(o) => o,
                    Err(p) => {
                        let msg = p.downcast_ref::<String>().cloned().or_else(|| p.downcast_ref::<&str>().map(|s| s.to_string())).unwrap_or_default();
                        json!({"verdict":"panic","msg":msg,"events":[]})
                    }
                }
            }
            "mintrace" => {
                let u = usage.clone();
                match std::panic::catch_unwind(move || mintrace(&u, shell)) {
                    Ok(o) => o,
                    Err(_) => json!({"verdict":"panic"}),
                }
            }
            _ => json!({}),
        };
        v["obs"] = obs;
        writeln!(out, "{}", v).unwrap();
        out.flush().unwrap();
    }
    if mode == "cli" {
        let _ = std::fs::remove_dir_all(&tmpdir);
    }
}
