// Makes /repo/src/main.rs (the command-line front end: argument handling, diagnostics rendering, exit
// statuses, output destinations) callable in-process: the file is copied verbatim into OUT_DIR with the
// single textual change `std::process::exit` -> `crate::clishim::exit` (a diverging function that unwinds
// with the status as payload), so that thousands of runs do not each need a process (process creation is
// the bottleneck of this sandbox).  Anything alarming observed through this shim is re-run with the real
// binary before it is reported; a sample of all runs is cross-checked against the real binary.
use std::{env, fs, path::Path};

fn main() {
    let repo = env::var("VERIF_REPO").unwrap_or_else(|_| "/repo".to_string());
    let src_path = format!("{repo}/src/main.rs");
    println!("cargo:rerun-if-changed={src_path}");
    println!("cargo:rerun-if-env-changed=VERIF_REPO");
    let src = fs::read_to_string(&src_path).expect("read main.rs");
    let patched = src.replace("std::process::exit", "crate::clishim::exit");
    let out = Path::new(&env::var("OUT_DIR").unwrap()).join("cli_main.rs");
    fs::write(out, patched).unwrap();
    println!("cargo:rustc-env=COMPLGEN_VERSION=verif-shim");
    println!("cargo:rustc-env=VERIF_SHIM_PATCHED={}", if src.contains("std::process::exit") { 1 } else { 0 });
}
