---------------------------- MODULE Meaning ----------------------------
(* What a grammar denotes: the labelled position automaton of the resolved tree (items = literal
   text + description + `||` level, command, any-word, within-word automaton), the flattened
   two-level labelled language used to compare automata (C02, C03, C04), and the remaining
   well-formedness conditions that need the automaton (C08). *)
EXTENDS Usage

END == <<0>>
IsLeafK(k) == k \in {"lit", "cmd", "compadd", "star", "sub"}
IsCmdK(k) == k \in {"cmd", "compadd"}

RECURSIVE Nullable(_), First(_), LastP(_), Follow(_), Leaves(_)
Nullable(t) ==
  CASE IsLeafK(t.k) -> FALSE
    [] t.k = "seq" -> \A i \in 1..Len(t.c) : Nullable(t.c[i])
    [] t.k = "alt" -> \E i \in 1..Len(t.c) : Nullable(t.c[i])
    [] t.k = "opt" -> TRUE
    [] t.k = "many" -> Nullable(t.c[1])
First(t) ==
  CASE IsLeafK(t.k) -> {t.pos}
    [] t.k = "seq" -> UNION { First(t.c[i]) : i \in { j \in 1..Len(t.c) : \A l \in 1..(j-1) : Nullable(t.c[l]) } }
    [] t.k = "alt" -> UNION { First(t.c[i]) : i \in 1..Len(t.c) }
    [] t.k \in {"opt", "many"} -> First(t.c[1])
LastP(t) ==
  CASE IsLeafK(t.k) -> {t.pos}
    [] t.k = "seq" -> UNION { LastP(t.c[i]) : i \in { j \in 1..Len(t.c) : \A l \in (j+1)..Len(t.c) : Nullable(t.c[l]) } }
    [] t.k = "alt" -> UNION { LastP(t.c[i]) : i \in 1..Len(t.c) }
    [] t.k \in {"opt", "many"} -> LastP(t.c[1])
\* x... is x followed by any number of x over the same positions
Follow(t) ==
  CASE IsLeafK(t.k) -> {}
    [] t.k = "seq" ->
         UNION { Follow(t.c[i]) : i \in 1..Len(t.c) } \cup
         UNION { LastP(t.c[ij[1]]) \X First(t.c[ij[2]]) :
                 ij \in { p \in (1..Len(t.c)) \X (1..Len(t.c)) :
                          p[1] < p[2] /\ \A l \in (p[1]+1)..(p[2]-1) : Nullable(t.c[l]) } }
    [] t.k = "alt" -> UNION { Follow(t.c[i]) : i \in 1..Len(t.c) }
    [] t.k = "opt" -> Follow(t.c[1])
    [] t.k = "many" -> Follow(t.c[1]) \cup (LastP(t.c[1]) \X First(t.c[1]))
Leaves(t) == IF IsLeafK(t.k) THEN {t} ELSE UNION { Leaves(t.c[i]) : i \in 1..Len(t.c) }

\* position automaton of a tree: initial set, follow function, item function
Glu(t) ==
  LET fo == Follow(t)  la == LastP(t)  lv == Leaves(t)  ps == { l.pos : l \in lv } IN
  [ init |-> First(t) \cup (IF Nullable(t) THEN {END} ELSE {}),
    fol  |-> [ p \in ps |-> { pq[2] : pq \in { x \in fo : x[1] = p } } \cup (IF p \in la THEN {END} ELSE {}) ],
    item |-> [ p \in ps |-> CHOOSE l \in lv : l.pos = p ] ]

\* everything about the specification side of case c: top automaton and one automaton per within-word item
Spec(c) ==
  LET g == Glu(TopTree(c)) IN
  [ top |-> g,
    sub |-> [ p \in { q \in DOMAIN g.item : g.item[q].k = "sub" } |-> Glu(g.item[p].c[1]) ] ]

----------------------------------------------------------------------------
(* C08, the conditions that need the automaton *)
\* inside a word: two adjacent literals that come from a space-separated sequence
RECURSIVE TailLit(_), HeadLit(_), SpacesIn(_, _)
TailLit(t) == IF t.k = "lit" THEN TRUE ELSE IF t.k \in {"seq", "sub"} THEN TailLit(t.c[Len(t.c)]) ELSE FALSE
HeadLit(t) == IF t.k = "lit" THEN TRUE ELSE IF t.k \in {"seq", "sub"} THEN HeadLit(t.c[1]) ELSE FALSE
SpacesIn(t, inword) ==
  IF IsLeafK(t.k) /\ t.k # "sub" THEN FALSE
  ELSE IF t.k = "sub" THEN SpacesIn(t.c[1], TRUE)
  ELSE \/ \E i \in 1..Len(t.c) : SpacesIn(t.c[i], inword)
       \/ inword /\ t.k = "seq" /\ t.t # "jux" /\ \E i \in 1..(Len(t.c) - 1) : TailLit(t.c[i]) /\ HeadLit(t.c[i + 1])
\* a placeholder inside a word that something can follow
UnboundedIn(g) == \E p \in DOMAIN g.item : g.item[p].k = "star" /\ g.fol[p] \ {END} # {}
Unbounded(sp) == \E p \in DOMAIN sp.sub : UnboundedIn(sp.sub[p])

\* points of the grammar = position sets reachable by typing words; a step merges every item that
\* reads the same (same literal text / same command / any-word / a within-word expression)
SameReading(a, b) == a.k = b.k /\ a.t = b.t /\ (a.k = "sub" => a.pos = b.pos)
StepLike(g, P, q) == UNION { g.fol[p] : p \in { r \in P \ {END} : SameReading(g.item[r], g.item[q]) } }
Succs(g, P) == { StepLike(g, P, q) : q \in P \ {END} }
RECURSIVE PointsFrom(_, _, _)
PointsFrom(g, seen, frontier) ==
  IF frontier = {} THEN seen
  ELSE LET new == (UNION { Succs(g, P) : P \in frontier }) \ seen IN PointsFrom(g, seen \cup new, new)
Points(g) == PointsFrom(g, {g.init}, {g.init})
ConflictAt(g, P) == \E p, q \in P \ {END} : g.item[p].k = "lit" /\ g.item[q].k = "lit" /\
                        g.item[p].t = g.item[q].t /\ <<g.item[p].hd, g.item[p].d>> # <<g.item[q].hd, g.item[q].d>>
Conflicting(sp) == (\E P \in Points(sp.top) : ConflictAt(sp.top, P)) \/
                   (\E s \in DOMAIN sp.sub : \E P \in Points(sp.sub[s]) : ConflictAt(sp.sub[s], P))

Semantic(c, sp) ==
  (IF SpacesIn(TopTree(c), FALSE) THEN {"subword_spaces"} ELSE {}) \cup
  (IF Unbounded(sp) THEN {"unbounded"} ELSE {}) \cup
  (IF Conflicting(sp) THEN {"conflicting_descr"} ELSE {})

\* all mistakes of case c; the tree-based ones are only defined when the structure is sound
Verdicts(c) == IF Structural(c) # {} THEN Structural(c) ELSE Semantic(c, Spec(c))

----------------------------------------------------------------------------
(* the flat (bracketed) labelled language of the two-level automaton:
   a within-word item at level lv reads  <open lv> inner items... <close> *)
Lab(l) == [k |-> l.k, t |-> l.t, d |-> l.d, hd |-> l.hd, lv |-> l.lv]
Open(lv) == [k |-> "open", t |-> "", d |-> "", hd |-> FALSE, lv |-> lv]
Close == [k |-> "close", t |-> "", d |-> "", hd |-> FALSE, lv |-> 0]

SInit(sp) == [m |-> "top", P |-> sp.top.init]
SAcc(sp, L) == L.m = "top" /\ END \in L.P
SEnabled(sp, L) ==
  IF L.m = "top" THEN
     { IF sp.top.item[p].k = "sub" THEN Open(sp.top.item[p].lv) ELSE Lab(sp.top.item[p]) : p \in L.P \ {END} }
  ELSE UNION { { Lab(sp.sub[pq.p].item[q]) : q \in pq.Q \ {END} } : pq \in L.S } \cup
       (IF \E pq \in L.S : END \in pq.Q THEN {Close} ELSE {})
SStep(sp, L, a) ==
  IF L.m = "top" THEN
     IF a.k = "open" THEN
        [m |-> "in", S |-> { [p |-> p, Q |-> sp.sub[p].init] : p \in { q \in L.P \ {END} : sp.top.item[q].k = "sub" /\ sp.top.item[q].lv = a.lv } }]
     ELSE [m |-> "top", P |-> UNION { sp.top.fol[p] : p \in { q \in L.P \ {END} : sp.top.item[q].k # "sub" /\ Lab(sp.top.item[q]) = a } }]
  ELSE
     IF a.k = "close" THEN [m |-> "top", P |-> UNION { sp.top.fol[pq.p] : pq \in { x \in L.S : END \in x.Q } }]
     ELSE [m |-> "in", S |-> { y \in { [p |-> pq.p, Q |-> UNION { sp.sub[pq.p].fol[q] : q \in { r \in pq.Q \ {END} : Lab(sp.sub[pq.p].item[r]) = a } }] : pq \in L.S } : y.Q # {} }]
=======================================================================
