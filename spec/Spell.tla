---------------------------- MODULE Spell ----------------------------
(* Spelling of literal and description text in .usage syntax, as a generator of test inputs with their expected
   reading (C05).  A literal is a sequence of characters drawn from classes:
       "r"  regular character (letters, digits and ! # $ % & ' * + , - / : = ? @ ^ _ ` ~)
       "q"  reserved character ( ) [ ] < > | ; " { } \   - must be written with a backslash
       "d"  the dot - may be written raw or with a backslash, but never three raw dots in a row (that is the
            `...` operator), and not raw as the last character when `...` follows directly
   A spelling assigns to every character "raw" or "esc".  Valid spellings must read back as the text; spellings
   with three raw dots in a row (or a raw dot directly before `...`) must not: they contain the operator.
   TLC enumerates all class strings up to MaxLen with all spellings and prints one REPLAY line each. *)
EXTENDS Naturals, Sequences, FiniteSets, TLC, Json, IOUtils

MaxLen == IF "SPELL_MAXLEN" \in DOMAIN IOEnv THEN atoi(IOEnv.SPELL_MAXLEN) ELSE 4
Classes == {"r", "q", "d"}
Contexts == {"end", "space", "many", "juxt_paren"}     \* what follows the literal: `;`, ` x`, `...`, `(x|y)`

RawRuns(cls, sp) == { <<i, j>> \in (1..Len(cls)) \X (1..Len(cls)) : i <= j /\ \A k \in i..j : cls[k] = "d" /\ sp[k] = "raw" }
ThreeRawDots(cls, sp) == \E r \in RawRuns(cls, sp) : r[2] - r[1] >= 2
EndsWithRawDot(cls, sp) == Len(cls) > 0 /\ cls[Len(cls)] = "d" /\ sp[Len(cls)] = "raw"

\* the spelling rules
Valid(cls, sp, ctx) ==
  /\ \A k \in 1..Len(cls) : (cls[k] = "r" => sp[k] = "raw") /\ (cls[k] = "q" => sp[k] = "esc")
  /\ ~ThreeRawDots(cls, sp)
  /\ (ctx = "many" => ~EndsWithRawDot(cls, sp))
\* spellings that must NOT read back as the text (the tree differs or the file is rejected)
Invalid(cls, sp, ctx) ==
  \/ ThreeRawDots(cls, sp)                                                \* reads as the ... operator
  \/ (ctx = "many" /\ EndsWithRawDot(cls, sp))

VARIABLES cls, sp, ctx
Init == \E n \in 1..MaxLen : \E c \in [1..n -> Classes] : \E s \in [1..n -> {"raw", "esc"}] : \E x \in Contexts :
          /\ cls = c /\ sp = s /\ ctx = x
          /\ \A k \in 1..n : (c[k] = "q" => s[k] = "esc") /\ (c[k] = "r" => s[k] = "raw")
          /\ (Valid(c, s, x) \/ Invalid(c, s, x))
Next == UNCHANGED <<cls, sp, ctx>>
Emit == PrintT(<<"REPLAY", ToJson([cls |-> cls, sp |-> sp, ctx |-> ctx, expect |-> IF Valid(cls, sp, ctx) THEN "same" ELSE "differ"])>>)
=======================================================================
