---------------------------- MODULE Hopcroft ----------------------------
(* Mechanism model of src/dfa.rs::do_minimize (Hopcroft's partition refinement with a dead state completing the
   transition function), one action per loop iteration of the code, with the nondeterminism the code really has left
   open: the work list and the partition are hash sets, so the block popped next (`worklist.iter().next()`), the order
   in which inputs are tried (`transitions_to_group.values()`) and the order in which overlapping blocks are split are
   NOT fixed by the program text.  TLC explores every such schedule.
     Pop        take any block of the work list; compute, per input, the states that lead into it
     PickInput  take any not yet tried input of the popped block
     Split      split any block that overlaps the pre-image X; work-list rule exactly as written (both halves if the
                block was pending, else the smaller half); when the popped block itself is split the pre-image computed
                from the block as popped keeps being used for the remaining blocks and inputs (stale block)
   Design questions (for ALL schedules, on the automata the real pipeline produced):
     Sound    no split ever separates two Nerode-equivalent states
     Minimal  on termination the partition IS the set of Nerode classes
   Input: Cases = << [id, n: number of states (1..n; 0 is the dead state), m: number of inputs, tr: <<<<from, input, to>>>>, acc] >>.
   A schedule that ends non-minimal is a prediction about the design; the orchestrator then looks at the recorded result
   of the real run for that automaton (MinCheck.tla decides). *)
EXTENDS Naturals, Sequences, FiniteSets, TLC, Json, IOUtils

D == ndJsonDeserialize(IOEnv.CASES)
N == Len(D)
DEAD == 0
Syms(c) == 1..D[c].m
Acc(c) == { D[c].acc[i] : i \in 1..Len(D[c].acc) }
Tr(c) == { <<D[c].tr[i][1], D[c].tr[i][2], D[c].tr[i][3]>> : i \in 1..Len(D[c].tr) }
Delta(c, s, a) == IF \E t \in Tr(c) : t[1] = s /\ t[2] = a THEN (CHOOSE t \in Tr(c) : t[1] = s /\ t[2] = a)[3] ELSE DEAD
Pre(c, G, a) == { s \in 1..D[c].n : Delta(c, s, a) \in G }

\* reference, computed without any schedule: Moore refinement to the fixpoint on the completed automaton
RECURSIVE Moore(_, _)
Sig(c, P, s) == [a \in Syms(c) |-> CHOOSE B \in P : (IF s = DEAD THEN DEAD ELSE Delta(c, s, a)) \in B]
Refine(c, P) == UNION { { { s \in B : Sig(c, P, s) = Sig(c, P, r) } : r \in B } : B \in P }
Moore(c, P) == LET Q == Refine(c, P) IN IF Q = P THEN P ELSE Moore(c, Q)
InitParts(c) == { B \in { {DEAD}, Acc(c), (1..D[c].n) \ Acc(c) } : B # {} }
Nerode == [c \in 1..N |-> Moore(c, InitParts(c))]

\* Until the repair recorded in known_findings.json (F-hopcroft-break) the code left the loop over the overlapping blocks with
\* `break` when the popped block itself was split.  HOPCROFT_WITHBREAK=1 explores that variant: TLC then finds schedules that
\* end coarser than the Nerode partition (e.g. on the raw automaton of `cmd ((b | [b] | c) (c | [c]) b b) [b | b] b;`).
WithBreak == "HOPCROFT_WITHBREAK" \in DOMAIN IOEnv

VARIABLES case, parts, work, grp, pend, ov, X, pc
vars == <<case, parts, work, grp, pend, ov, X, pc>>

Init == \E c \in 1..N :
   /\ case = c /\ grp = {} /\ pend = {} /\ ov = {} /\ X = {}
   /\ parts = InitParts(c) /\ work = InitParts(c) /\ pc = "pop"
Pop == /\ pc = "pop" /\ work # {}
       /\ \E g \in work :
            /\ grp' = g /\ work' = work \ {g}
            /\ pend' = { a \in Syms(case) : Pre(case, g, a) # {} }
       /\ pc' = "input" /\ UNCHANGED <<case, parts, ov, X>>
Finish == /\ pc = "pop" /\ work = {} /\ pc' = "done" /\ UNCHANGED <<case, parts, work, grp, pend, ov, X>>
PickInput ==
       /\ pc = "input"
       /\ IF pend = {} THEN pc' = "pop" /\ UNCHANGED <<pend, ov, X>>
          ELSE \E a \in pend :
                 /\ pend' = pend \ {a}
                 /\ X' = Pre(case, grp, a)
                 /\ ov' = { P \in parts : P \cap Pre(case, grp, a) # {} }
                 /\ pc' = "split"
       /\ UNCHANGED <<case, parts, work, grp>>
Split == /\ pc = "split"
         /\ IF ov = {} THEN pc' = "input" /\ UNCHANGED <<parts, work, ov>>
            ELSE \E P \in ov :
                   LET in == P \cap X  out == P \ X IN
                   IF out = {} THEN ov' = ov \ {P} /\ UNCHANGED <<parts, work>> /\ pc' = "split"
                   ELSE /\ parts' = (parts \ {P}) \cup {in, out}
                        /\ work' = IF P \in work THEN (work \ {P}) \cup {in, out}
                                   ELSE IF Cardinality(in) <= Cardinality(out) THEN work \cup {in} ELSE work \cup {out}
                        /\ ov' = IF P = grp /\ WithBreak THEN {} ELSE ov \ {P}
                        /\ pc' = "split"
         /\ UNCHANGED <<case, grp, pend, X>>
Next == Pop \/ Finish \/ PickInput \/ Split

Sound == \A B \in Nerode[case] : \E P \in parts : B \subseteq P
Minimal == pc = "done" => parts = Nerode[case]
ReportSound == Sound \/ PrintT(<<"UNSOUND", D[case].id>>)
ReportMinimal == Minimal \/ PrintT(<<"NONMINIMAL", D[case].id>>)
Terminated == pc # "done" \/ PrintT(<<"DONE", D[case].id, Cardinality(parts)>>)
=======================================================================
