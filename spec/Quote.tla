---------------------------- MODULE Quote ----------------------------
(* How each target shell reads a double-quoted string constant (C07), written from the shells' documentation, as a
   scanner over code points.  Decode(shell, raw) consumes raw = <<34, ..., 34>> and returns
       [ok: the constant is terminated exactly at its last character and nothing in it is expanded,
        text: the characters the shell ends up with, why: "" | "unterminated" | "expands" | "trailing" | "not_quoted"]
   bash / zsh   "..."  backslash quotes only $ ` " \ and newline (a backslash before anything else stays);
                       $ followed by a name character, a digit, a special parameter or { (  starts an expansion;
                       ` starts a command substitution; ! is inert in a sourced script
   fish         "..."  backslash quotes only " $ \ and newline; $ followed by a name character or ( expands; ` is inert
   pwsh         "..."  ` is the escape character (`0 `a `b `e `f `n `r `t `v are control characters, any other character
                       stands for itself), "" is a quote, $ followed by a name character, { ( or : expands,
                       the typographic quotes U+201C U+201D U+201E also terminate the string
   The Graphviz reader (C16) is in Dot.tla. *)
EXTENDS Naturals, Sequences, FiniteSets, TLC

DQ == 34  BS == 92  DOLLAR == 36  BTICK == 96  NL == 10
IsAlpha(c) == (c >= 65 /\ c <= 90) \/ (c >= 97 /\ c <= 122) \/ c = 95
IsDigit(c) == c >= 48 /\ c <= 57
ShSpecialParam == {42, 64, 35, 63, 36, 33, 45}            \* * @ # ? $ ! -
DollarExpands(shell, n) ==      \* n = the character after the $ (0 = none)
  CASE shell \in {"bash", "zsh"} -> IsAlpha(n) \/ IsDigit(n) \/ n \in ShSpecialParam \/ n \in {123, 40}
    [] shell = "fish" -> IsAlpha(n) \/ IsDigit(n) \/ n = 40
    [] shell = "pwsh" -> IsAlpha(n) \/ IsDigit(n) \/ n \in {123, 40, 58, 36, 63, 94}
Escapable(shell) == CASE shell \in {"bash", "zsh"} -> {DOLLAR, BTICK, DQ, BS, NL} [] shell = "fish" -> {DQ, DOLLAR, BS, NL} [] OTHER -> {}
PwshControl == {48, 97, 98, 101, 102, 110, 114, 116, 118}    \* `0 `a `b `e `f `n `r `t `v
PwshControlChar(n) == CASE n = 48 -> 0 [] n = 97 -> 7 [] n = 98 -> 8 [] n = 101 -> 27 [] n = 102 -> 12 [] n = 110 -> 10 [] n = 114 -> 13 [] n = 116 -> 9 [] n = 118 -> 11
PwshQuotes == {8220, 8221, 8222}

At(raw, i) == IF i <= Len(raw) THEN raw[i] ELSE 0

RECURSIVE Scan(_, _, _, _)
Scan(shell, raw, i, acc) ==
  LET c == At(raw, i)  n == At(raw, i + 1) IN
  IF i > Len(raw) THEN [ok |-> FALSE, text |-> acc, why |-> "unterminated"]
  ELSE IF shell = "pwsh" THEN
         (IF c = BTICK THEN (IF n = 0 THEN [ok |-> FALSE, text |-> acc, why |-> "unterminated"]
                            ELSE IF n \in PwshControl THEN Scan(shell, raw, i + 2, Append(acc, PwshControlChar(n)))
                            ELSE Scan(shell, raw, i + 2, Append(acc, n)))
          ELSE IF c = DQ /\ n = DQ THEN Scan(shell, raw, i + 2, Append(acc, DQ))
          ELSE IF c = DQ \/ c \in PwshQuotes THEN
                 (IF i = Len(raw) /\ c = DQ THEN [ok |-> TRUE, text |-> acc, why |-> ""] ELSE [ok |-> FALSE, text |-> acc, why |-> "trailing"])
          ELSE IF c = DOLLAR /\ DollarExpands(shell, n) THEN [ok |-> FALSE, text |-> acc, why |-> "expands"]
          ELSE Scan(shell, raw, i + 1, Append(acc, c)))
  ELSE
         (IF c = BS THEN (IF n = 0 THEN [ok |-> FALSE, text |-> acc, why |-> "unterminated"]
                          ELSE IF n \in Escapable(shell) THEN Scan(shell, raw, i + 2, IF n = NL THEN acc ELSE Append(acc, n))
                          ELSE Scan(shell, raw, i + 1, Append(acc, BS)))
          ELSE IF c = DQ THEN (IF i = Len(raw) THEN [ok |-> TRUE, text |-> acc, why |-> ""] ELSE [ok |-> FALSE, text |-> acc, why |-> "trailing"])
          ELSE IF c = DOLLAR /\ DollarExpands(shell, n) THEN [ok |-> FALSE, text |-> acc, why |-> "expands"]
          ELSE IF c = BTICK /\ shell \in {"bash", "zsh"} THEN [ok |-> FALSE, text |-> acc, why |-> "expands"]
          ELSE Scan(shell, raw, i + 1, Append(acc, c)))

Decode(shell, raw) == IF Len(raw) < 2 \/ raw[1] # DQ THEN [ok |-> FALSE, text |-> <<>>, why |-> "not_quoted"] ELSE Scan(shell, raw, 2, <<>>)
=======================================================================
