---------------------------- MODULE MinCheck ----------------------------
(* C03(b): every recorded minimised automaton (the main one and each within-word one) is
   deterministic, trim (all states reachable and co-reachable) and has only singleton Nerode
   classes, and its size equals the number of Nerode classes of the recorded raw automaton.
   One TLC state per (case, automaton); the decision is the evaluation of the invariants. *)
EXTENDS Corpus, Automaton

VARIABLES case, which          \* which = 0: main automaton, i > 0: within-word automaton i

Usable(c) == Obs(c).verdict = "ok"
Init == \E c \in 1..N : Usable(c) /\ \E w \in 0..Len(Obs(c).minsubs) : case = c /\ which = w
Next == UNCHANGED <<case, which>>

D == IF which = 0 THEN Obs(case).min ELSE Obs(case).minsubs[which]
Raw == IF which = 0 THEN Obs(case).raw ELSE <<>>

Unreachable == AStates(D) \ Reach(D)
Dead == AStates(D) \ CoReach(D)
Merged == { B \in Nerode(D) : Cardinality(B) > 1 }
RawClasses == IF which = 0 THEN Cardinality(Nerode(Raw)) ELSE 0
SizeOk == which # 0 \/ Cardinality(AStates(D)) = RawClasses

Problems ==
  (IF ~Deterministic(D) THEN {"not_deterministic"} ELSE {}) \cup
  (IF Unreachable # {} THEN {"unreachable_state"} ELSE {}) \cup
  (IF Dead # {} THEN {"dead_state"} ELSE {}) \cup
  (IF Merged # {} THEN {"not_minimal"} ELSE {}) \cup
  (IF ~SizeOk THEN {"size_differs_from_minimal"} ELSE {})

Report == Problems = {} \/
          PrintT(<<"MISMATCH", ToJson([id |-> Cases[case].id, which |-> which, problems |-> Problems,
                                       nstates |-> Cardinality(AStates(D)), rawclasses |-> RawClasses,
                                       merged |-> Merged, unreachable |-> Unreachable, dead |-> Dead,
                                       allacc |-> \A s \in AStates(D) : IsAcc(D, s)])>>)
Seen == PrintT(<<"VALIDATED", Cases[case].id, which>>)
=======================================================================
