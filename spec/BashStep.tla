---------------------------- MODULE BashStep ----------------------------
(* Trace validation of the emitted bash completion function, step by step, against BashVM.tla's per-iteration operators.
   The script is not changed: bash's DEBUG trap (drivers/trace.bash) reports the variables of the completion function and of
   the within-word function whenever one changed; lib/vmtrace.py turns consecutive reports into one event per changed variable
   (a lossless re-encoding, nothing is guessed):
       st v | wi v          `state=..` / `word_index=..` of the completion function
       enter N | leave      the within-word function of wrapper N is entered / left
       mode v | ss v | ci v | m v      `mode`, `subword_state`, `char_index`, `matched` of the within-word function
       fl v | sfl v | nm v  `fallback_level`, `subword_fallback_level`, number of `matches`
   One specification action per event; an assignment that does not change the value (a transition into the same state) is not
   reported and is taken silently together with the next reported step.  What the specification demands of each step:
     st v      v is a target the word at `wi` can lead to from `st` BY THE RULES OF THE EMITTED TEXT (BashVM.tla): a literal equal
               to the word wins; else the within-word functions invoked so far at this word all answered "no" except the last;
               else a command that lists the word; else the any-word transition
     ss v/ci v one iteration of the within-word loop from (ss, ci) yields "go to v consuming n characters" (LitPass / CmdTry)
     m 1       the word is used up, or nothing applies and the state has an any-rest transition
     leave     with m = 0 only if an iteration says "stop" or nothing applies and there is no any-rest transition
     fl 0      the words before the cursor are used up, or the `break 3` exit applies (last word, a command does not list it)
     fl v+1    only while `matches` is still empty (the first `||` level that has any candidate wins); nm only grows
     end       status 1 only where the emitted text returns 1
   Cases: [id, vm, traces: << [words, prefix, rc, ev: << [e, v] >>] >>].  A trace that is not a behaviour is MODEL-DRIFT (the
   model misrepresents the script's steps), never a verdict on complgen. *)
EXTENDS BashVM, Json, IOUtils

Cases == ndJsonDeserialize(IOEnv.CASES)
N == Len(Cases)

VARIABLES case, ti, l, pc, phase, st, wi, sid, ss, ci, m, mode, pend, inv, fl, nm
vars == <<case, ti, l, pc, phase, st, wi, sid, ss, ci, m, mode, pend, inv, fl, nm>>

T == Cases[case].traces[ti]
V == Cases[case].vm
Ev == T.ev
NW == Len(T.words)
Word == IF phase = "match" THEN T.words[wi] ELSE T.prefix
A == V.subs[sid]
Is(e) == l <= Len(Ev) /\ Ev[l].e = e
Val == Ev[l].v
Consume == l' = l + 1

Init == \E c \in 1..N : \E i \in 1..Len(Cases[c].traces) :
          /\ case = c /\ ti = i /\ l = 1 /\ pc = "top" /\ phase = "match"
          /\ st = -1 /\ wi = -1 /\ sid = 0 /\ ss = -1 /\ ci = -1 /\ m = -1 /\ mode = "-" /\ pend = 0 /\ inv = <<>> /\ fl = -1 /\ nm = 0

\* ---- the completion function, words before the cursor
Lits(w) == { i \in 1..Len(V.lits) : V.lits[i] = w /\ LitTr(V, st, i) # {} }
SubsAt == KindTr(V, st, "sub")
Invoked == { inv[i].sid : i \in 1..Len(inv) }
AllNo == \A i \in 1..Len(inv) : inv[i].m = 0
CmdsAt == { t \in KindTr(V, st, "cmd") : VCands(V.tr[t].l) # {} }
\* targets the emitted text can assign to `state` for the word at wi, given the within-word invocations observed at this word
Targets(w) ==
  IF Lits(w) # {} THEN (IF inv = <<>> THEN { V.tr[MinOf(LitTr(V, st, MinOf(Lits(w))))].t } ELSE {})
  ELSE IF inv # <<>> /\ inv[Len(inv)].m = 1
       THEN (IF \A i \in 1..(Len(inv) - 1) : inv[i].m = 0 THEN { V.tr[t].t : t \in { u \in SubsAt : V.tr[u].l.sub = inv[Len(inv)].sid } } ELSE {})
  ELSE IF AllNo /\ { V.tr[t].l.sub : t \in SubsAt } \subseteq Invoked
       THEN LET hit == { t \in CmdsAt : w \in VCands(V.tr[t].l) } IN
            IF hit # {} THEN { V.tr[t].t : t \in hit }
            ELSE IF KindTr(V, st, "star") # {} /\ ~(wi = NW /\ CmdsAt # {}) THEN { V.tr[MinOf(KindTr(V, st, "star"))].t } ELSE {}
  ELSE {}
\* the `break 3` exit and `return 1`
Break3 == phase = "match" /\ pc = "top" /\ wi = NW /\ Lits(T.words[wi]) = {} /\ AllNo /\ { V.tr[t].l.sub : t \in SubsAt } \subseteq Invoked
          /\ \E t \in CmdsAt : T.words[wi] \notin VCands(V.tr[t].l)
Return1 == phase = "match" /\ pc = "top" /\ wi \in 1..NW /\ Lits(T.words[wi]) = {} /\ AllNo /\ { V.tr[t].l.sub : t \in SubsAt } \subseteq Invoked
           /\ \A t \in CmdsAt : T.words[wi] \notin VCands(V.tr[t].l) /\ (CmdsAt = {} \/ wi < NW) /\ KindTr(V, st, "star") = {}

E_st == /\ Is("st") /\ pc = "top" /\ phase = "match"
        /\ IF st = -1 THEN Val = V.start /\ pc' = "top" /\ UNCHANGED inv
           ELSE wi \in 1..NW /\ Val # st /\ Val \in Targets(T.words[wi]) /\ pc' = "incw" /\ UNCHANGED inv
        /\ st' = Val /\ Consume /\ UNCHANGED <<case, ti, nm, phase, wi, sid, ss, ci, m, mode, pend, fl>>
E_wi == /\ Is("wi") /\ phase = "match"
        /\ \/ wi = -1 /\ st # -1 /\ pc = "top" /\ Val = 1
           \/ pc = "incw" /\ Val = wi + 1
           \/ pc = "top" /\ wi \in 1..NW /\ st \in Targets(T.words[wi]) /\ Val = wi + 1      \* `state` was assigned its own value
        /\ wi' = Val /\ pc' = "top" /\ inv' = <<>> /\ Consume /\ UNCHANGED <<case, ti, nm, phase, st, sid, ss, ci, m, mode, pend, fl>>

\* ---- the within-word function
SubOfLevel(n) == \E t \in SubsAt : V.tr[t].l.sub = n /\ (phase = "match" \/ V.tr[t].l.lv = fl)
E_enter == /\ Is("enter") /\ pc = "top" /\ Val \in 1..Len(V.subs) /\ SubOfLevel(Val)
           /\ IF phase = "match" THEN wi \in 1..NW /\ Lits(T.words[wi]) = {} /\ AllNo /\ Val \notin Invoked ELSE fl >= 0
           /\ sid' = Val /\ pc' = "subinit" /\ ss' = -1 /\ ci' = -1 /\ m' = -1 /\ mode' = "-" /\ Consume
           /\ UNCHANGED <<case, ti, nm, phase, st, wi, pend, inv, fl>>
E_mode == /\ Is("mode") /\ pc = "subinit" /\ mode = "-" /\ Val = (IF phase = "match" THEN "matches" ELSE "complete")
          /\ mode' = Val /\ Consume /\ UNCHANGED <<case, ti, nm, pc, phase, st, wi, sid, ss, ci, m, pend, inv, fl>>
\* one iteration of `while true` from (ss, ci): the possible results
Iter == LET lp == LitPass(A, Word, ss, ci, 1, 0) IN
        IF lp.r \in {"stop", "go"} THEN {lp}
        ELSE LET all == { CmdTry(A, Word, ci, t) : t \in KindTr(A, ss, "cmd") }
                 ds == { x \in all : x.r \in {"stop", "go"} } IN
             IF ds # {} THEN ds ELSE {R_NONE}
Used == ci >= Len(Word)
\* the literal branch assigns `subword_state` and then `char_index`; the command branch `char_index` and then `subword_state`
LitGo == LitPass(A, Word, ss, ci, 1, 0)
CmdGo == IF LitGo.r \in {"stop", "go"} THEN {} ELSE { r \in Iter : r.r = "go" }
E_ss == /\ Is("ss") /\ mode # "-"
        /\ \/ pc = "subinit" /\ ss = -1 /\ Val = A.start /\ pc' = "subinit" /\ pend' = pend
           \/ pc = "subloop" /\ ~Used /\ Val # ss /\ LitGo.r = "go" /\ LitGo.go = Val /\ pend' = LitGo.n /\ pc' = "incc"
           \/ pc = "setss" /\ Val = pend /\ Val # ss /\ pc' = "subloop" /\ pend' = 0
        /\ ss' = Val /\ Consume /\ UNCHANGED <<case, ti, nm, phase, st, wi, sid, ci, m, mode, inv, fl>>
E_ci == /\ Is("ci") /\ mode # "-"
        /\ \/ pc = "subinit" /\ ss # -1 /\ ci = -1 /\ Val = 0 /\ pc' = "subinit" /\ pend' = pend
           \/ pc = "incc" /\ Val = ci + pend /\ pc' = "subloop" /\ pend' = 0
           \/ pc = "subloop" /\ ~Used /\ LitGo.r = "go" /\ LitGo.go = ss /\ Val = ci + LitGo.n /\ pc' = "subloop" /\ pend' = 0   \* `subword_state` keeps its value
           \/ pc = "subloop" /\ ~Used /\ \E r \in CmdGo : Val = ci + r.n /\ pend' = r.go /\ pc' = (IF r.go = ss THEN "subloop" ELSE "setss")
        /\ ci' = Val /\ Consume
        /\ UNCHANGED <<case, ti, nm, phase, st, wi, sid, ss, m, mode, inv, fl>>
E_m == /\ Is("m") /\ mode # "-"
       /\ \/ pc = "subinit" /\ ci = 0 /\ m = -1 /\ Val = 0 /\ pc' = "subloop"
          \/ pc = "subloop" /\ m = 0 /\ Val = 1 /\ (Used \/ (Iter = {R_NONE} /\ KindTr(A, ss, "star") # {})) /\ pc' = "subdone"
       /\ m' = Val /\ Consume /\ UNCHANGED <<case, ti, nm, phase, st, wi, sid, ss, ci, mode, pend, inv, fl>>
\* leaving the matching loop without `matched=1`: an iteration says stop, or nothing applies and there is no any-rest transition
Stops == ~Used /\ ((\E r \in Iter : r.r = "stop") \/ (Iter = {R_NONE} /\ KindTr(A, ss, "star") = {}))
E_leave == /\ Is("leave") /\ pc \in {"subloop", "subdone", "subcomplete"}
           /\ (pc = "subloop" => m = 0 /\ Stops)
           /\ (phase = "match" => pc \in {"subloop", "subdone"})
           /\ inv' = IF phase = "match" THEN Append(inv, [sid |-> sid, m |-> m]) ELSE inv
           /\ pc' = "top" /\ sid' = 0 /\ ss' = -1 /\ ci' = -1 /\ m' = -1 /\ mode' = "-" /\ Consume
           /\ UNCHANGED <<case, ti, nm, phase, st, wi, pend, fl>>
\* the completion part of the within-word function (mode complete): levels and matches are reported, not re-derived here
\* (`subword_fallback_level` is not declared local by the emitted text: it keeps its value from one within-word function to the
\* next, so its first assignment in a function may go unreported; the matching part is over when either event arrives)
SubMatchingOver == pc \in {"subdone", "subcomplete"} \/ (pc = "subloop" /\ m = 0 /\ Stops)
E_sfl == /\ Is("sfl") /\ phase = "complete" /\ SubMatchingOver
         /\ pc' = "subcomplete" /\ Consume /\ UNCHANGED <<case, ti, nm, phase, st, wi, sid, ss, ci, m, mode, pend, inv, fl>>
\* `matches` only grows
E_nm == /\ Is("nm") /\ phase = "complete" /\ (pc = "top" \/ SubMatchingOver) /\ Val > nm
        /\ pc' = (IF pc = "top" THEN "top" ELSE "subcomplete") /\ nm' = Val
        /\ Consume /\ UNCHANGED <<case, ti, phase, st, wi, sid, ss, ci, m, mode, pend, inv, fl>>

\* ---- the completion part of the completion function
E_fl == /\ Is("fl") /\ pc = "top"
        /\ \/ phase = "match" /\ Val = 0 /\ (wi = NW + 1 \/ Break3)
           \/ phase = "complete" /\ Val = fl + 1 /\ nm = 0        \* the next `||` level is consulted only while nothing matched
        /\ phase' = "complete" /\ fl' = Val /\ Consume /\ UNCHANGED <<case, ti, nm, pc, st, wi, sid, ss, ci, m, mode, pend, inv>>

Next == E_st \/ E_wi \/ E_enter \/ E_mode \/ E_ss \/ E_ci \/ E_m \/ E_leave \/ E_sfl \/ E_nm \/ E_fl

\* ---- acceptance: the whole trace is consumed and the function may end here with the recorded status
AtEnd == l = Len(Ev) + 1 /\ pc = "top"
EndOk == IF T.rc = 1 THEN Return1 ELSE IF T.rc = 0 THEN phase = "complete" ELSE TRUE
Accepted == AtEnd /\ EndOk
ReportAccepted == ~Accepted \/ PrintT(<<"ACCEPTED", Cases[case].id, ti>>)
ReportProgress == PrintT(<<"AT", Cases[case].id, ti, l - 1>>)
=======================================================================
