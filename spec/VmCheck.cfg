INIT Init
NEXT Next
INVARIANT Report
INVARIANT Seen
CHECK_DEADLOCK FALSE
