---------------------------- MODULE Words ----------------------------
(* Word-level meaning: which earlier words are matched, which candidates are due at the cursor, which
   external-command invocations are required/allowed (C01, C09, C12, C17).  Words, literal texts and
   probe output are sequences of code points (TLC cannot take strings apart):
     literal node:  cp     = code points of the text
     command node:  lines  = probe output lines (code points), a candidate is the part before the first TAB
   The within-word matcher is an exact dynamic programme over token boundaries (no tokenisation
   heuristic): Front(j) = inner positions that may start at offset j after complete tokens. *)
EXTENDS Meaning, SequencesExt

TAB == 9
SP == <<32>>
FAIL == {<<-1>>}

CpOf(c, it) == Nd(c, it.src).cp
UpToTab(line) == LET is == { i \in 1..Len(line) : line[i] = TAB } IN
                 IF is = {} THEN line ELSE SubSeq(line, 1, (CHOOSE i \in is : \A j \in is : i <= j) - 1)
CandsOf(c, it) == IF it.src = 0 THEN {} ELSE { UpToTab(l) : l \in RangeS(Nd(c, it.src).lines) }
ProbeOf(c, it) == IF it.src = 0 THEN "" ELSE Nd(c, it.src).probe
\* the complete tokens an item can read
Toks(c, it) == IF it.k = "lit" THEN {CpOf(c, it)} ELSE IF IsCmdK(it.k) THEN CandsOf(c, it) ELSE {}

----------------------------------------------------------------------------
(* inside a word: g is the position automaton of the within-word expression *)
\* fs = <<Front(0), ..., Front(i-1)>>  ->  <<Front(0), ..., Front(n)>>
RECURSIVE Fronts(_, _, _, _)
Fronts(c, g, x, fs) ==
  LET i == Len(fs) IN       \* computing Front(i)
  IF i > Len(x) THEN fs
  ELSE LET f == UNION { UNION { g.fol[q] : q \in { r \in fs[j + 1] \ {END} :
                                     SubSeq(x, j + 1, i) \in Toks(c, g.item[r]) } } : j \in 0..(i - 1) }
       IN  Fronts(c, g, x, Append(fs, f))
FrontsOf(c, g, x) == Fronts(c, g, x, <<g.init>>)
StarsAt(g, F) == { q \in F \ {END} : g.item[q].k = "star" }

InnerAccepts(c, g, x) ==
  LET fs == FrontsOf(c, g, x)  n == Len(x) IN
  \/ END \in fs[n + 1]
  \/ \E j \in 0..(n - 1) : \E q \in StarsAt(g, fs[j + 1]) : END \in g.fol[q]
\* unspecified: a placeholder reading the empty rest of a word
InnerUnclear(c, g, x) ==
  LET fs == FrontsOf(c, g, x)  n == Len(x) IN END \notin fs[n + 1] /\ StarsAt(g, fs[n + 1]) # {}
\* every character was consumed by complete tokens but the word expression is not finished
InnerIncomplete(c, g, x) ==
  LET fs == FrontsOf(c, g, x)  n == Len(x) IN fs[n + 1] # {} /\ ~InnerAccepts(c, g, x)

\* candidates a within-word expression contributes for typed text x at inner level lv
InnerReqAt(c, g, x, lv) ==
  LET fs == FrontsOf(c, g, x)  n == Len(x) IN
  UNION { UNION { { SubSeq(x, 1, j) \o t : t \in { u \in Toks(c, g.item[q]) :
                       IsPrefix(SubSeq(x, j + 1, n), u) /\ u # SubSeq(x, j + 1, n) } }
                  : q \in { r \in fs[j + 1] \ {END} : g.item[r].lv = lv } } : j \in 0..n }
\* a value typed in full may be offered again as a candidate of itself
InnerSelfAt(c, g, x, lv) ==
  LET fs == FrontsOf(c, g, x)  n == Len(x) IN
  IF \E j \in 0..(n - 1) : \E q \in fs[j + 1] \ {END} : g.item[q].lv = lv /\ SubSeq(x, j + 1, n) \in Toks(c, g.item[q])
  THEN {x} ELSE {}
InnerLevels(g) == { g.item[q].lv : q \in DOMAIN g.item }
\* inside the word only levels up to the first one that has a candidate are consulted
InnerWin(c, g, x) == LET ls == { l \in InnerLevels(g) : InnerReqAt(c, g, x, l) # {} } IN
                     IF ls = {} THEN 99 ELSE CHOOSE l \in ls : \A m \in ls : l <= m
\* last boundary the script can have reached, and the commands it must consult there
LastFront(c, g, x) == LET fs == FrontsOf(c, g, x) IN
                      CHOOSE j \in 0..Len(x) : fs[j + 1] # {} /\ \A i \in (j + 1)..Len(x) : fs[i + 1] = {}

----------------------------------------------------------------------------
(* top level *)
LitAt(c, sp, P, w)  == { p \in P \ {END} : sp.top.item[p].k = "lit" /\ CpOf(c, sp.top.item[p]) = w }
SubAt(c, sp, P, w)  == { p \in P \ {END} : sp.top.item[p].k = "sub" /\ InnerAccepts(c, sp.sub[p], w) }
CmdAt(c, sp, P, w)  == { p \in P \ {END} : IsCmdK(sp.top.item[p].k) /\ w \in CandsOf(c, sp.top.item[p]) }
StarAt(sp, P)       == { p \in P \ {END} : sp.top.item[p].k = "star" }
Matching(c, sp, P, w) ==
  LET lit == LitAt(c, sp, P, w)  sub == SubAt(c, sp, P, w)  cmd == CmdAt(c, sp, P, w)  star == StarAt(sp, P) IN
  IF lit # {} THEN lit ELSE IF sub # {} THEN sub ELSE IF cmd # {} THEN cmd ELSE star
StepWord(c, sp, P, w) ==
  IF P = FAIL THEN FAIL
  ELSE LET m == Matching(c, sp, P, w) IN IF m = {} THEN FAIL ELSE UNION { sp.top.fol[p] : p \in m }
\* regions the property statements hand to other properties or leave open
StepUnclear(c, sp, P, w) ==
  P # FAIL /\
  LET lit == LitAt(c, sp, P, w)  sub == SubAt(c, sp, P, w)  cmd == CmdAt(c, sp, P, w) IN
  \/ Cardinality({ Lab(sp.top.item[p]) : p \in lit }) > 1                    \* same literal, two labels (C09)
  \/ lit = {} /\ Cardinality(sub) > 1                                       \* two word expressions, one word (C09)
  \/ lit = {} /\ sub # {} /\ cmd # {}                                       \* priority not specified
  \/ lit = {} /\ sub = {} /\ Cardinality({ Lab(sp.top.item[p]) : p \in cmd }) > 1     \* one candidate, two commands/labels (C09)
  \/ lit = {} /\ sub = {} /\ \E p \in P \ {END} : sp.top.item[p].k = "sub" /\ InnerUnclear(c, sp.sub[p], w)

RECURSIVE Walk(_, _, _, _, _)
Walk(c, sp, P, ws, i) == IF i > Len(ws) THEN P ELSE Walk(c, sp, StepWord(c, sp, P, ws[i]), ws, i + 1)
RECURSIVE WalkUnclear(_, _, _, _, _)
WalkUnclear(c, sp, P, ws, i) ==
  IF i > Len(ws) THEN FALSE
  ELSE StepUnclear(c, sp, P, ws[i]) \/ WalkUnclear(c, sp, StepWord(c, sp, P, ws[i]), ws, i + 1)

Levels(sp, P) == { sp.top.item[p].lv : p \in { q \in P \ {END} : sp.top.item[q].k # "star" } }
InnerFirst(c, g, x, self) ==     \* inside the word only the first inner level that has any
  LET R(l) == InnerReqAt(c, g, x, l)  S(l) == InnerSelfAt(c, g, x, l)
      ls == { l \in InnerLevels(g) : R(l) \cup (IF self THEN S(l) ELSE {}) # {} } IN
  IF ls = {} THEN {} ELSE LET l0 == CHOOSE l \in ls : \A m \in ls : l <= m IN IF self THEN S(l0) ELSE R(l0)
ReqAt(c, sp, P, x, lv) ==
  LET ps == { p \in P \ {END} : sp.top.item[p].lv = lv } IN
  { CpOf(c, sp.top.item[p]) \o SP : p \in { q \in ps : sp.top.item[q].k = "lit" /\ IsPrefix(x, CpOf(c, sp.top.item[q])) } } \cup
  UNION { InnerFirst(c, sp.sub[p], x, FALSE) : p \in { q \in ps : sp.top.item[q].k = "sub" } } \cup
  UNION { { cd \in CandsOf(c, sp.top.item[p]) : IsPrefix(x, cd) } : p \in { q \in ps : IsCmdK(sp.top.item[q].k) } }
OptAt(c, sp, P, x, lv) ==
  LET ps == { p \in P \ {END} : sp.top.item[p].lv = lv } IN
  UNION { UNION { InnerSelfAt(c, sp.sub[p], x, l) : l \in InnerLevels(sp.sub[p]) } : p \in { q \in ps : sp.top.item[q].k = "sub" } }

\* bash strips the typed prefix up to its last word-break character from every candidate
LastBreak(x, wb) == LET is == { i \in 1..Len(x) : x[i] \in RangeS(wb) } IN
                    IF is = {} THEN 0 ELSE CHOOSE i \in is : \A j \in is : j <= i
Strip(cd, n) == SubSeq(cd, n + 1, Len(cd))

\* is the observed reply R (a set of code-point sequences, already as bash delivered it) acceptable?
ReplyOk(c, sp, P, x, wb, R) ==
  LET n == LastBreak(x, wb)
      Req(l) == { Strip(cd, n) : cd \in ReqAt(c, sp, P, x, l) }
      Opt(l) == { Strip(cd, n) : cd \in OptAt(c, sp, P, x, l) }
      ls == Levels(sp, P) IN
  IF P = FAIL THEN R = {}
  ELSE \/ R = {} /\ \A l \in ls : Req(l) = {}
       \/ \E l \in ls : /\ R # {}
                        /\ Req(l) \subseteq R /\ R \subseteq (Req(l) \cup Opt(l))
                        /\ \A k \in ls : k < l => Req(k) = {}
\* the reply the specification predicts when nothing optional is offered (for reports and replay generation)
Predicted(c, sp, P, x) ==
  IF P = FAIL THEN {}
  ELSE LET ls == { l \in Levels(sp, P) : ReqAt(c, sp, P, x, l) # {} } IN
       IF ls = {} THEN {} ELSE ReqAt(c, sp, P, x, CHOOSE l \in ls : \A m \in ls : l <= m)
WinningLevel(c, sp, P, x) ==
  LET ls == { l \in Levels(sp, P) : ReqAt(c, sp, P, x, l) # {} } IN
  IF ls = {} THEN 99 ELSE CHOOSE l \in ls : \A m \in ls : l <= m

----------------------------------------------------------------------------
(* C17: external-command invocations.  A call is [probe, a1, a2]. *)
\* completion phase at the cursor: every command expected at a level up to the winning one must be consulted
RequiredCalls(c, sp, P, x) ==
  IF P = FAIL THEN {}
  ELSE LET win == WinningLevel(c, sp, P, x)
           ps == { p \in P \ {END} : sp.top.item[p].lv <= win } IN
       { [probe |-> ProbeOf(c, sp.top.item[p]), a1 |-> x, a2 |-> <<>>] : p \in { q \in ps : IsCmdK(sp.top.item[q].k) } } \cup
       UNION { LET g == sp.sub[p]  j == LastFront(c, g, x) IN
               { [probe |-> ProbeOf(c, g.item[q]), a1 |-> SubSeq(x, j + 1, Len(x)), a2 |-> SubSeq(x, 1, j)] :
                 q \in { r \in FrontsOf(c, g, x)[j + 1] \ {END} : IsCmdK(g.item[r].k) /\ g.item[r].lv <= InnerWin(c, g, x) } }
               : p \in { q \in ps : sp.top.item[q].k = "sub" /\ OptAt(c, sp, P, x, sp.top.item[q].lv) = {} } }
\* every probe identity that is expected anywhere along the path or at the cursor
ExpectedProbesAt(c, sp, P) ==
  IF P = FAIL THEN {}
  ELSE { ProbeOf(c, sp.top.item[p]) : p \in { q \in P \ {END} : IsCmdK(sp.top.item[q].k) } } \cup
       UNION { { ProbeOf(c, sp.sub[p].item[q]) : q \in { r \in DOMAIN sp.sub[p].item : IsCmdK(sp.sub[p].item[r].k) } }
               : p \in { q \in P \ {END} : sp.top.item[q].k = "sub" } }
RECURSIVE AllowedProbes(_, _, _, _, _)
AllowedProbes(c, sp, P, ws, i) ==
  ExpectedProbesAt(c, sp, P) \cup
  (IF i > Len(ws) THEN {} ELSE AllowedProbes(c, sp, StepWord(c, sp, P, ws[i]), ws, i + 1))
=======================================================================
