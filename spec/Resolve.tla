---------------------------- MODULE Resolve ----------------------------
(* Mechanism model of src/check.rs::get_nonterminals_resolution_order + traverse_nonterminal_dependencies_dfs: cycle
   detection among nonterminal definitions and the order in which ValidGrammar::from_grammar substitutes definitions into
   one another.  One action per step the code takes, with the nondeterminism the program text leaves open: the dependency
   graph and the set of roots are hash maps / hash sets, so the order in which roots are tried and in which the children of
   a vertex are followed is not fixed by the text.
     Start        the vertices nothing depends on are the roots; no root at all => phase "allcyc" (every vertex is tried,
                  a cycle must be found, falling out of that loop is `unreachable!()`), otherwise phase "roots"
     PickRoot(v)  next vertex of the current loop (already visited ones are skipped in "allcyc" and "rest"); path = <<v>>
     Enter        visited += cur; a frame for cur with all its children still to follow
     Edge(c)      next child c of the top frame: on the path => the cycle error (terminal); visited => skipped; else descend
     Return       the top frame has no child left: below the root the vertex is appended to the result; a root is appended
                  in the phases "roots" and "rest" (never in "allcyc")
     Substitute   (after "done") the next definition of the order gets the current right-hand sides of its references substituted in
     NextPhase    "roots" exhausted => "rest": whatever is still unvisited can be reached only through a cycle;
                  "rest" exhausted => done, the result keeps only the vertices that depend on something
   Design questions, for ALL iteration orders and (Resolve.cfg with CASES = every graph up to a size) all graphs:
     Walk         the path is always a walk of the graph that starts at the current root and has no repeated vertex
     CycleSound   the cycle error is raised only for a child that closes a real cycle (the reported spans are that walk)
     CycleComplete  "done" is reached only if the graph is acyclic
     Reachable    the `unreachable!()` after the "allcyc" loop is never reached
     FullyResolved  after the substitution loop that consumes the order (Substitute) no definition mentions a defined name
     OrderOk      on "done" the order lists exactly the vertices that depend on something, each once, and every vertex
                  after all the vertices it depends on - so each definition is substituted into its users only after it
                  has itself been fully resolved (which is what resolve_nonterminals relies on)
   Cases: [id, graph: << <<v, <<children>>>> >>] exactly as the instrumented code reports the graph in its `ro_init` event. *)
EXTENDS Integers, Sequences, FiniteSets, TLC, Json, IOUtils

D == ndJsonDeserialize(IOEnv.CASES)
N == Len(D)
ToSet(s) == { s[i] : i \in 1..Len(s) }
V(c) == { D[c].graph[i][1] : i \in 1..Len(D[c].graph) }
Ch(c, v) == UNION { ToSet(D[c].graph[i][2]) : i \in { j \in 1..Len(D[c].graph) : D[c].graph[j][1] = v } }

\* reference, computed without any schedule
RECURSIVE Desc(_, _)
Desc(c, W) == LET Nw == W \cup UNION { Ch(c, v) : v \in W } IN IF Nw = W THEN W ELSE Desc(c, Nw)
Below(c, v) == IF Ch(c, v) = {} THEN {} ELSE Desc(c, Ch(c, v))          \* what v depends on, transitively
Cyclic == [c \in 1..N |-> \E v \in V(c) : v \in Below(c, v)]
Roots(c) == { v \in V(c) : \A u \in V(c) : v \notin Ch(c, u) }

VARIABLES case, pc, phase, pending, path, stack, visited, result, cur, closing, refs, si
vars == <<case, pc, phase, pending, path, stack, visited, result, cur, closing, refs, si>>

Init == \E c \in 1..N :
   /\ case = c /\ pc = "start" /\ phase = "roots" /\ pending = {} /\ path = <<>> /\ stack = <<>>
   /\ visited = {} /\ result = <<>> /\ cur = "" /\ closing = ""
   /\ refs = [v \in V(c) |-> Ch(c, v)] /\ si = 1

Start == /\ pc = "start" /\ pc' = "pick"
         /\ IF Roots(case) = {} THEN phase' = "allcyc" /\ pending' = V(case) ELSE phase' = "roots" /\ pending' = Roots(case)
         /\ UNCHANGED <<case, path, stack, visited, result, cur, closing, refs, si>>

\* `if visited.contains(&vertex) { continue; }` of the "allcyc" and "rest" loops: skipping commutes, so all at once
\* RESOLVE_FIRSTONLY=1 models the code before fix 4d45051 (the "allcyc" loop tried one vertex only): a vacuity control for Reachable
FirstOnly == "RESOLVE_FIRSTONLY" \in DOMAIN IOEnv
Candidates == IF phase = "roots" THEN pending
              ELSE IF phase = "allcyc" /\ FirstOnly /\ pending # V(case) THEN {} ELSE pending \ visited
PickRoot(v) == /\ pc = "pick" /\ v \in Candidates
               /\ pending' = pending \ {v} /\ path' = <<v>> /\ cur' = v /\ pc' = "enter"
               /\ UNCHANGED <<case, phase, stack, visited, result, closing, refs, si>>
Enter == /\ pc = "enter" /\ visited' = visited \cup {cur}
         /\ stack' = Append(stack, [v |-> cur, todo |-> Ch(case, cur)]) /\ pc' = "dfs"
         /\ UNCHANGED <<case, phase, pending, path, result, cur, closing, refs, si>>
Top == stack[Len(stack)]
EdgeKind(c) == IF c \in ToSet(path) THEN "cycle" ELSE IF c \in visited THEN "seen" ELSE "descend"
Edge(c) == /\ pc = "dfs" /\ Len(stack) > 0 /\ c \in Top.todo
           /\ stack' = [stack EXCEPT ![Len(stack)].todo = @ \ {c}]
           /\ (CASE EdgeKind(c) = "cycle" -> (pc' = "cycle" /\ closing' = c /\ UNCHANGED <<path, cur>>)
                 [] EdgeKind(c) = "seen" -> UNCHANGED <<pc, path, cur, closing>>
                 [] OTHER -> (pc' = "enter" /\ cur' = c /\ path' = Append(path, c) /\ UNCHANGED closing))
           /\ UNCHANGED <<case, phase, pending, visited, result, refs, si>>
\* the vertex Return appends to the result, "" if none
Emitted == IF Len(stack) > 1 \/ phase # "allcyc" THEN Top.v ELSE ""
Return == /\ pc = "dfs" /\ Len(stack) > 0 /\ Top.todo = {}
          /\ stack' = SubSeq(stack, 1, Len(stack) - 1)
          /\ result' = IF Emitted = "" THEN result ELSE Append(result, Emitted)
          /\ IF Len(stack) > 1 THEN path' = SubSeq(path, 1, Len(path) - 1) /\ pc' = "dfs"
                               ELSE path' = <<>> /\ pc' = "pick"
          /\ UNCHANGED <<case, phase, pending, visited, cur, closing, refs, si>>
DependsOnSomething(v) == Ch(case, v) # {}
\* RESOLVE_REVERSED=1: the order consumed back to front - a vacuity control for OrderOk / FullyResolved
Reversed == "RESOLVE_REVERSED" \in DOMAIN IOEnv
Rev(s) == [i \in 1..Len(s) |-> s[Len(s) + 1 - i]]
Final == IF Reversed THEN Rev(SelectSeq(result, DependsOnSomething)) ELSE SelectSeq(result, DependsOnSomething)
NextPhase == /\ pc = "pick" /\ Candidates = {}
             /\ (CASE phase = "roots" -> (phase' = "rest" /\ pending' = V(case) \ visited /\ pc' = "pick")
                   [] phase = "rest" -> (pc' = "done" /\ UNCHANGED <<phase, pending>>)
                   [] OTHER -> (pc' = "unreachable" /\ UNCHANGED <<phase, pending>>))
             /\ UNCHANGED <<case, path, stack, visited, result, cur, closing, refs, si>>
\* the loop of ValidGrammar::from_grammar that follows: in the computed order, each definition's right-hand side gets the CURRENT
\* right-hand sides of the definitions it refers to substituted in (resolve_nonterminals); refs[v] = defined names v still mentions
Substitute == /\ pc = "done" /\ si <= Len(Final)
              /\ LET v == Final[si] IN refs' = [refs EXCEPT ![v] = UNION { refs[c] : c \in refs[v] }]
              /\ si' = si + 1
              /\ UNCHANGED <<case, pc, phase, pending, path, stack, visited, result, cur, closing>>
Next == Start \/ (\E v \in V(case) : PickRoot(v) \/ Edge(v)) \/ Enter \/ Return \/ NextPhase \/ Substitute

\* ---- design questions
Walk == /\ \A i \in 1..(Len(path) - 1) : path[i + 1] \in Ch(case, path[i])
        /\ \A i, j \in 1..Len(path) : path[i] = path[j] => i = j
        /\ pc \in {"dfs", "enter", "cycle"} => Len(path) > 0
IndexIn(s, v) == CHOOSE k \in 1..Len(s) : s[k] = v
CycleSound == pc = "cycle" => /\ closing \in ToSet(path) /\ closing \in Ch(case, path[Len(path)])
                              /\ Cyclic[case] /\ closing \in Below(case, closing)
CycleComplete == pc = "done" => ~Cyclic[case]
Reachable == pc # "unreachable"
OrderOk == pc = "done" => LET f == Final IN
              /\ ToSet(f) = { v \in V(case) : Ch(case, v) # {} }
              /\ \A i, j \in 1..Len(f) : f[i] = f[j] => i = j
              /\ \A i \in 1..Len(f) : \A d \in Below(case, f[i]) : Ch(case, d) # {} => (d \in ToSet(f) /\ IndexIn(f, d) < i)
\* every vertex is entered at most once, and the result never holds a vertex twice
Once == \A i, j \in 1..Len(result) : result[i] = result[j] => i = j

\* after the substitution loop no definition mentions a defined name any more, so substituting definitions into the call variants
\* once leaves no reference behind
FullyResolved == (pc = "done" /\ si > Len(Final)) => \A v \in V(case) : refs[v] = {}
ReportFullyResolved == FullyResolved \/ PrintT(<<"MECH", D[case].id, "fully_resolved">>)
ReportWalk == Walk \/ PrintT(<<"MECH", D[case].id, "walk">>)
ReportCycleSound == CycleSound \/ PrintT(<<"MECH", D[case].id, "cycle_sound">>)
ReportCycleComplete == CycleComplete \/ PrintT(<<"MECH", D[case].id, "cycle_complete">>)
ReportReachable == Reachable \/ PrintT(<<"MECH", D[case].id, "unreachable_reached">>)
ReportOrderOk == OrderOk \/ PrintT(<<"MECH", D[case].id, "order">>)
ReportOnce == Once \/ PrintT(<<"MECH", D[case].id, "once">>)
Terminated == pc \notin {"done", "cycle", "unreachable"} \/ PrintT(<<"END", D[case].id, pc, ToJson(IF pc = "done" THEN Final ELSE <<>>)>>)
=======================================================================
