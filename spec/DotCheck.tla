---------------------------- MODULE DotCheck ----------------------------
(* C16: the --dfa Graphviz file shows the real automaton, the --regex file shows every expected item.
   The files are read by a strict reader of the DOT language (lib/dotread.py, written from the DOT grammar; quoted
   strings: only \" is an escape of the delimiter; label escapes per Graphviz escString).  Per recorded run:
     dfa   = [ok, nodes: << [pfx, n, shape] >>, edges: << [fp, fn, tp, tn, dashed, label: code points] >>]
     regex = [ok, labels: << code points >>]
     AS    = numbering base of the target shell (0 bash/pwsh, 1 fish/zsh), as in the emitted script
   pfx = "" for the main automaton, "<k>_" for the cluster of a within-word automaton.
   Checked against the recorded minimised automaton (Obs.min, Obs.minsubs): one node per state numbered state + AS,
   start and accepting marking, one labelled solid edge per literal/command/any-word transition whose label contains
   the literal's text, and for every within-word transition a cluster that shows that automaton, entered by a dashed
   edge from the source state and left by dashed edges from its accepting states to the target state. *)
EXTENDS Corpus, Automaton

VARIABLE case
Usable(c) == Obs(c).verdict = "ok"
Init == \E c \in 1..N : Usable(c) /\ case = c
Next == UNCHANGED case

O == Obs(case)
G == O.dfa
AS == O.base
Nodes(p) == { G.nodes[i] : i \in { j \in 1..Len(G.nodes) : G.nodes[j].pfx = p } }
NodeNums(p) == { x.n : x \in Nodes(p) }
Edges == { G.edges[i] : i \in 1..Len(G.edges) }
Solid(p) == { e \in Edges : ~e.dashed /\ e.fp = p /\ e.tp = p }
NSolid(p) == Cardinality({ i \in 1..Len(G.edges) : ~G.edges[i].dashed /\ G.edges[i].fp = p /\ G.edges[i].tp = p })
Contains(lab, t) == Len(t) = 0 \/ \E i \in 1..(Len(lab) - Len(t) + 1) : SubSeq(lab, i, i + Len(t) - 1) = t
StartShapes == {"octagon", "doubleoctagon"}
AccShapes == {"doublecircle", "doubleoctagon"}

\* automaton d is shown under prefix p
Shows(d, p) ==
  LET plain == { i \in 1..Len(d.tr) : d.tr[i].l.k # "sub" } IN
  /\ NodeNums(p) = { s + AS : s \in AStates(d) }
  /\ { x.n : x \in { y \in Nodes(p) : y.shape \in StartShapes } } = {d.start + AS}
  /\ { s + AS : s \in { d.acc[i] : i \in 1..Len(d.acc) } \ {d.start} } \subseteq { x.n : x \in { y \in Nodes(p) : y.shape \in AccShapes } }
  /\ (\E x \in Nodes(p) : x.n = d.start + AS /\ x.shape = "doubleoctagon") <=> IsAcc(d, d.start)
  /\ { x.n : x \in { y \in Nodes(p) : y.shape = "doublecircle" } } \subseteq { s + AS : s \in { d.acc[i] : i \in 1..Len(d.acc) } }
  /\ NSolid(p) = Cardinality(plain)
  /\ \A i \in plain : \E e \in Solid(p) : e.fn = d.tr[i].f + AS /\ e.tn = d.tr[i].t + AS /\ Contains(e.label, d.tr[i].l.cp)
Prefixes == { G.nodes[i].pfx : i \in 1..Len(G.nodes) } \ {""}
SubShown(i) ==      \* within-word transition i of the main automaton
  LET tr == O.min.tr[i]  sd == O.minsubs[tr.l.sub] IN
  \E p \in Prefixes :
     /\ Shows(sd, p)
     /\ \E e \in Edges : e.dashed /\ e.fp = "" /\ e.fn = tr.f + AS /\ e.tp = p /\ e.tn = sd.start + AS
     /\ \A a \in { sd.acc[j] : j \in 1..Len(sd.acc) } : \E e \in Edges : e.dashed /\ e.fp = p /\ e.fn = a + AS /\ e.tp = "" /\ e.tn = tr.t + AS
SubTr == { i \in 1..Len(O.min.tr) : O.min.tr[i].l.k = "sub" }

\* --regex: every literal and every command text of the automaton occurs in some node label, and every node drawn carries a label
Texts == { O.min.tr[i].l.cp : i \in { j \in 1..Len(O.min.tr) : O.min.tr[j].l.k = "lit" } } \cup
         UNION { { O.minsubs[s].tr[i].l.cp : i \in { j \in 1..Len(O.minsubs[s].tr) : O.minsubs[s].tr[j].l.k = "lit" } } : s \in 1..Len(O.minsubs) }
RegexShows == \A t \in Texts : \E i \in 1..Len(O.regex.labels) : Contains(O.regex.labels[i], t)
CmdTexts == { O.cmdcps[i] : i \in 1..Len(O.cmdcps) }
RegexShowsCmds == \A t \in CmdTexts : \E i \in 1..Len(O.regex.labels) : Contains(O.regex.labels[i], t)

Problems ==
  (IF ~G.ok THEN {"dfa_file_not_valid_dot"} ELSE
     (IF ~Shows(O.min, "") THEN {"dfa_main_automaton_not_shown"} ELSE {}) \cup
     (IF \E i \in SubTr : ~SubShown(i) THEN {"dfa_within_word_automaton_not_shown"} ELSE {}) \cup
     (IF Cardinality(Prefixes) # Len(O.minsubs) THEN {"dfa_cluster_count"} ELSE {})) \cup
  (IF ~O.regex.ok THEN {"regex_file_not_valid_dot"}
   ELSE (IF ~RegexShows THEN {"regex_item_missing"} ELSE {}) \cup (IF ~RegexShowsCmds THEN {"regex_command_missing"} ELSE {}) \cup (IF O.regex.unlabelled > 0 THEN {"regex_unlabelled_node"} ELSE {}))
Report == Problems = {} \/ PrintT(<<"MISMATCH", ToJson([id |-> Cases[case].id, problems |-> Problems])>>)
Seen == PrintT(<<"VALIDATED", Cases[case].id>>)
=======================================================================
