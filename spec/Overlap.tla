---------------------------- MODULE Overlap ----------------------------
(* C09(a): at no state of the compiled (minimised) automaton - the one the emitted scripts walk deterministically - can
   one typed word be read as two different outgoing items that lead to different states.
   For every reachable state and every pair of outgoing literal / within-word items with different targets TLC explores,
   character by character, the product of the two items' word languages:
     a literal reads exactly its text; a within-word automaton reads any concatenation of the literals along an accepting
     path (a placeholder inside it reads any rest; command items are left out: their candidates are not known here).
   A side is a set of configurations [q: state, rest: characters still to read of the literal in progress, to: state after it];
   both sides step on the same character.  A reachable product state in which both sides may stop is an overlap: its
   history is a word with two readings.  (Any-word and command items are excluded, and a literal is not paired with
   a within-word item: their priority is specified - C01: a word equal to an expected literal is read as that literal.) *)
EXTENDS Corpus, Automaton

Usable(c) == Obs(c).verdict = "ok"
D(c) == Obs(c).min
Subs(c) == Obs(c).minsubs
MaxOf(S) == IF S = {} THEN 0 ELSE CHOOSE x \in S : \A y \in S : y <= x
MaxTr(c) == MaxOf({Len(D(c).tr)} \cup { Len(Subs(c)[w].tr) : w \in 1..Len(Subs(c)) })

\* a literal as a one-transition automaton
LitAuto(l) == [start |-> 0, acc |-> <<1>>, tr |-> <<[f |-> 0, l |-> l, t |-> 1]>>]
SideAuto(c, l) == IF l.k = "sub" THEN Subs(c)[l.sub] ELSE LitAuto(l)

ANY == [q |-> -1, rest |-> <<>>, to |-> -1]
Boundary(q) == [q |-> q, rest |-> <<>>, to |-> q]
StartConf(a) == {Boundary(a.start)}
MayStop(a, S) == ANY \in S \/ \E x \in S : x.rest = <<>> /\ IsAcc(a, x.q)
\* characters a side can read next
NextChars(a, S) ==
  UNION { IF x = ANY THEN {}
          ELSE IF x.rest # <<>> THEN {x.rest[1]}
          ELSE { a.tr[i].l.cp[1] : i \in { j \in TrFrom(a, x.q) : a.tr[j].l.k = "lit" /\ Len(a.tr[j].l.cp) > 0 } } : x \in S }
Land(q, rest, to) == IF rest = <<>> THEN Boundary(to) ELSE [q |-> q, rest |-> rest, to |-> to]
StepSide(a, S, ch) ==
  UNION { IF x = ANY THEN {ANY}
          ELSE IF x.rest # <<>> THEN (IF x.rest[1] = ch THEN {Land(x.q, Tail(x.rest), x.to)} ELSE {})
          ELSE { Land(x.q, Tail(a.tr[i].l.cp), a.tr[i].t) :
                 i \in { j \in TrFrom(a, x.q) : a.tr[j].l.k = "lit" /\ Len(a.tr[j].l.cp) > 0 /\ a.tr[j].l.cp[1] = ch } } \cup
               (IF \E j \in TrFrom(a, x.q) : a.tr[j].l.k = "star" THEN {ANY} ELSE {}) : x \in S }
\* a placeholder at a boundary reads any rest, including the character just typed
Close(a, S) == S \cup (IF \E x \in S : x # ANY /\ x.rest = <<>> /\ \E j \in TrFrom(a, x.q) : a.tr[j].l.k = "star" THEN {ANY} ELSE {})

\* the automaton looked at: 0 = the main one, w > 0 = the w-th within-word automaton (inside a word the items are literal tokens;
\* the same token expected twice from one inner state with different targets is the same situation one level down)
DA(c, w) == IF w = 0 THEN D(c) ELSE Subs(c)[w]
Pairs(c) == { <<w, i, j>> \in (0..Len(Subs(c))) \X (1..MaxTr(c)) \X (1..MaxTr(c)) :
                /\ i < j /\ j <= Len(DA(c, w).tr)
                /\ DA(c, w).tr[i].f = DA(c, w).tr[j].f /\ DA(c, w).tr[i].t # DA(c, w).tr[j].t
                /\ DA(c, w).tr[i].l.k \in (IF w = 0 THEN {"lit", "sub"} ELSE {"lit"}) /\ DA(c, w).tr[j].l.k = DA(c, w).tr[i].l.k
                /\ DA(c, w).tr[i].f \in Reach(DA(c, w)) }

VARIABLES case, pair, A, B, hist
TrL(c, p) == DA(c, p[1]).tr[p[2]]
TrR(c, p) == DA(c, p[1]).tr[p[3]]
Init == \E c \in 1..N : Usable(c) /\ \E p \in Pairs(c) :
          /\ case = c /\ pair = p /\ hist = <<>>
          /\ A = Close(SideAuto(c, TrL(c, p).l), StartConf(SideAuto(c, TrL(c, p).l)))
          /\ B = Close(SideAuto(c, TrR(c, p).l), StartConf(SideAuto(c, TrR(c, p).l)))
aA == SideAuto(case, TrL(case, pair).l)
aB == SideAuto(case, TrR(case, pair).l)
Both == hist # <<>> /\ MayStop(aA, A) /\ MayStop(aB, B)
Next == /\ ~Both
        /\ \E ch \in NextChars(aA, A) \cup NextChars(aB, B) :
             /\ A' = Close(aA, StepSide(aA, A, ch)) /\ B' = Close(aB, StepSide(aB, B, ch))
             /\ A' # {} /\ B' # {}
             /\ hist' = Append(hist, ch)
        /\ UNCHANGED <<case, pair>>
View == <<case, pair, A, B>>
Report == ~Both \/ PrintT(<<"MISMATCH", ToJson([id |-> Cases[case].id, word |-> hist, where |-> pair[1], state |-> TrL(case, pair).f,
                               left |-> TrL(case, pair).l, right |-> TrR(case, pair).l,
                               lto |-> TrL(case, pair).t, rto |-> TrR(case, pair).t])>>)
Seen == hist # <<>> \/ PrintT(<<"VALIDATED", Cases[case].id, pair[1], pair[2], pair[3]>>)
=======================================================================
