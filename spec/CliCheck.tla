---------------------------- MODULE CliCheck ----------------------------
(* C06 conformance: every distinct (options, observed terminal state) pair recorded from the real command must be a
   terminal state of Cli.tla for those options.  TLC explores the model once per recorded pair (the pair's index is part
   of the state) and prints ACCEPTED when a terminal state equals the observation; pairs never accepted are reported by
   the orchestrator.  The design-level invariants of Cli.tla are checked on the same exploration.
   Observation: [exit, stderr: "empty"|"nonempty", dest: "untouched"|"complete"|"other", regexfile, dfafile]. *)
EXTENDS Cli, Json, IOUtils

Cases == ndJsonDeserialize(IOEnv.CASES)
N == Len(Cases)
VARIABLE case
Init == \E c \in 1..N : case = c /\ CInit(Cases[c].opt)
Next == CNext /\ UNCHANGED case

O == Cases[case].obs
Matches == Terminal /\ exit = O.exit /\ stderr = O.stderr /\ dest = O.dest /\ regexfile = O.regexfile /\ dfafile = O.dfafile
Accept == ~Matches \/ PrintT(<<"ACCEPTED", Cases[case].id>>)
Started == pc # 1 \/ exit # -1 \/ PrintT(<<"VALIDATED", Cases[case].id>>)
=======================================================================
