---------------------------- MODULE VerdictCheck ----------------------------
(* C08: grammar mistakes are rejected with the right diagnostic; clean grammars pass.
   One TLC state per recorded run of the command (grammar x target shell).  The expected verdict is
   Meaning.Verdicts, computed from the generator's tree (never from the class that was planted):
     Verdicts = {}  (and the grammar is outside the regions the property leaves open)  =>  exit 0
     Verdicts # {}                                                                     =>  exit 1 and
                                             the class of the first diagnostic is one of Verdicts
   The generator's claim "I planted class X" is only used as a sanity condition on the oracle
   (Planted \in Verdicts); a disagreement there is reported as ORACLE-DOUBT, never as a mismatch. *)
EXTENDS Meaning

VARIABLE case
Init == \E c \in 1..N : case = c
Next == UNCHANGED case

V == Verdicts(case)
Planted == Cases[case].planted
Gray == Structural(case) = {} /\ GrayPlainOfSpecialised(case)
ObsExit == Obs(case).exit
ObsClass == Obs(case).class
LibClass == Obs(case).libclass       \* class of the library's Error value for the same input ("" = Ok)

Crashed == ObsExit \notin {0, 1}
Good == IF V = {} THEN ObsExit = 0 ELSE ObsExit = 1 /\ ObsClass \in V
LibGood == LibClass = "skip" \/ (IF ObsExit = 0 THEN LibClass = "" ELSE LibClass = ObsClass)
Kind == IF Crashed THEN "crash"
        ELSE IF V = {} THEN "rejected_but_clean"
        ELSE IF ObsExit = 0 THEN "accepted_but_ill_formed"
        ELSE IF ObsClass \notin V THEN "wrong_class" ELSE "library_and_command_disagree"
Doubt == Planted # "" /\ Planted \notin V

Report ==
  Gray \/ Doubt \/ (Good /\ LibGood) \/
  PrintT(<<"MISMATCH", ToJson([id |-> Cases[case].id, kind |-> Kind, expected |-> V, exit |-> ObsExit,
                               class |-> ObsClass, libclass |-> LibClass, planted |-> Planted])>>)
Seen == PrintT(<<IF Gray THEN "SKIPPED" ELSE IF Doubt THEN "ORACLE-DOUBT" ELSE "VALIDATED", Cases[case].id,
                 IF V = {} THEN "clean" ELSE "ill-formed">>)
=======================================================================
