INIT Init
NEXT Next
INVARIANT ReportAccepted
INVARIANT ReportProgress
CHECK_DEADLOCK FALSE
