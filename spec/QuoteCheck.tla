---------------------------- MODULE QuoteCheck ----------------------------
(* C07: every literal and description of the grammar reaches the script as a string constant that the target shell
   reads back as exactly the original text.  One TLC state per recorded script:
     consts   = << [raw: code points of the constant as it stands in the script, role: "literal" | "description"] >>
     lits, descrs = the grammar's literal / description texts (code points, from the generator's tree)
   Every constant must decode (Quote.Decode for the script's shell) cleanly, and the decoded literal / description sets
   must equal the grammar's. *)
EXTENDS Quote, Json, IOUtils

Cases == ndJsonDeserialize(IOEnv.CASES)
N == Len(Cases)
RangeS(s) == { s[i] : i \in 1..Len(s) }
VARIABLE case
Init == \E c \in 1..N : case = c
Next == UNCHANGED case

C == Cases[case]
Dec(i) == Decode(C.shell, C.consts[i].raw)
Bad == { i \in 1..Len(C.consts) : ~Dec(i).ok }
Got(role) == { Dec(i).text : i \in { j \in 1..Len(C.consts) : C.consts[j].role = role /\ Dec(j).ok } }
WantL == RangeS(C.lits)
WantD == RangeS(C.descrs) \ {<<>>}
Problems ==
  { [what |-> Dec(i).why, role |-> C.consts[i].role, raw |-> C.consts[i].raw, text |-> Dec(i).text] : i \in Bad } \cup
  { [what |-> "literal_missing", role |-> "literal", raw |-> <<>>, text |-> t] : t \in WantL \ Got("literal") } \cup
  { [what |-> "literal_extra", role |-> "literal", raw |-> <<>>, text |-> t] : t \in (IF Bad = {} THEN Got("literal") \ WantL ELSE {}) } \cup
  (IF C.withdescr THEN { [what |-> "description_missing", role |-> "description", raw |-> <<>>, text |-> t] : t \in WantD \ Got("description") } \cup
                       { [what |-> "description_extra", role |-> "description", raw |-> <<>>, text |-> t] : t \in (IF Bad = {} THEN (Got("description") \ {<<>>}) \ WantD ELSE {}) }
   ELSE {})
Report == Problems = {} \/ PrintT(<<"MISMATCH", ToJson([id |-> C.id, problems |-> Problems])>>)
Seen == PrintT(<<"VALIDATED", C.id, Len(C.consts)>>)
=======================================================================
