INIT TInit
NEXT TNext
INVARIANT ReportAccepted
INVARIANT ReportFinal
INVARIANT ReportDense
INVARIANT ReportDeterministic
INVARIANT ReportComplete
INVARIANT ReportExact
INVARIANT ReportPopped
CHECK_DEADLOCK FALSE
INVARIANT ReportProgress
