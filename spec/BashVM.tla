---------------------------- MODULE BashVM ----------------------------
(* The completion function of the emitted bash script as the script runs it (src/bash.rs), over the tables the script
   embeds (read back from the script text by lib/readers.py; C04 decides that they are the compiled automaton):
       vm = [start, lits: << code points >> (the `literals` array, in the script's order), tr: << [f, t, l] >>,
             subs: << [start, lits, tr] >>]
       l  = [k: "lit"|"sub"|"cmd"|"star", lid: 1-based index into lits, sub: index into subs, lv: fallback level,
             lines: << code points >> (fixed output of the command)]
   Steps mirror the emitted text block by block:
     TopStep      one iteration of `while [[ $word_index -lt $cword ]]`: literal loop (first literal equal to the word that
                  has a transition), within-word loop (`_subword_N matches`), command loop (candidate equal to the word;
                  `break 3` when the word is the last one before the cursor and no candidate equals it), any-word
                  transition, `return 1`
     SubLoop      the `while true` loop of `_subword`: the single pass over ALL literals with its three tests in the emitted
                  order (equal and enabled -> consume; the literal starts with the rest -> stop the whole loop; the rest starts
                  with the literal and it is enabled -> consume), then commands (candidates by decreasing length, same three
                  tests), then the any-rest transition
     Complete     the `for fallback_level` loop: literals of the level (with the trailing blank), within-word candidates,
                  command candidates, first level with any match wins, prefix up to the last word-break character stripped
   The iteration order of bash associative arrays (`"${!state_transitions[@]}"`) is not fixed by the script text: the model
   returns the SET of outcomes over all orders.
   Use: (1) conformance - every recorded completion of the real bash must be one of the model's outcomes (a disagreement is
   MODEL-DRIFT: the model misrepresents the script); (2) design level - the model is compared with the word-level meaning
   (Words.tla) on EVERY command line over the grammar's vocabulary up to a depth, and every disagreement is a prediction that
   is replayed in the real bash before it counts. *)
EXTENDS Naturals, Integers, Sequences, FiniteSets, TLC, SequencesExt

VTAB == 9
VUpToTab(line) == LET is == { i \in 1..Len(line) : line[i] = VTAB } IN
                  IF is = {} THEN line ELSE SubSeq(line, 1, (CHOOSE i \in is : \A j \in is : i <= j) - 1)
VCands(l) == { VUpToTab(l.lines[i]) : i \in 1..Len(l.lines) } \ {<<>>}
Starts(w, p) == IsPrefix(p, w)                 \* w starts with p

From(A, s) == { i \in 1..Len(A.tr) : A.tr[i].f = s }
LitTr(A, s, lid) == { i \in From(A, s) : A.tr[i].l.k = "lit" /\ A.tr[i].l.lid = lid }
KindTr(A, s, k) == { i \in From(A, s) : A.tr[i].l.k = k }
MinOf(S) == CHOOSE x \in S : \A y \in S : x <= y

----------------------------------------------------------------------------
(* _subword: result [m: matched, s: state, ci: characters consumed] ; a SET of results (command iteration order) *)
R_NONE == [r |-> "none", go |-> -1, n |-> 0]
R_SKIP == [r |-> "skip", go |-> -1, n |-> 0]
R_STOP == [r |-> "stop", go |-> -1, n |-> 0]
R_GO(to, n) == [r |-> "go", go |-> to, n |-> n]
RECURSIVE SubLoop(_, _, _, _, _), LitPass(_, _, _, _, _, _)
\* the pass over the literals array from index i on
LitPass(A, w, s, ci, i, fuel) ==
  LET rest == SubSeq(w, ci + 1, Len(w)) IN
  IF i > Len(A.lits) THEN R_NONE
  ELSE LET lit == A.lits[i]  en == LitTr(A, s, i) IN
       IF rest = lit /\ en # {} THEN R_GO(A.tr[MinOf(en)].t, Len(lit))
       ELSE IF Starts(lit, rest) THEN R_STOP
       ELSE IF Starts(rest, lit) /\ en # {} THEN R_GO(A.tr[MinOf(en)].t, Len(lit))
       ELSE LitPass(A, w, s, ci, i + 1, fuel)
\* candidates of one command against the rest: "stop", [go, n] or "none" (decreasing length, longest first)
CmdTry(A, w, ci, tr) ==
  LET rest == SubSeq(w, ci + 1, Len(w))  cs == VCands(A.tr[tr].l) IN
  IF cs = {} THEN R_SKIP
  ELSE IF rest \in cs THEN R_GO(A.tr[tr].t, Len(rest))
  ELSE LET longer == { c \in cs : Starts(c, rest) }
           shorter == { c \in cs : Starts(rest, c) } IN
       \* candidates are tried by decreasing length: a longer candidate that starts with the rest is met before a shorter one
       IF longer # {} THEN R_STOP
       ELSE IF shorter # {} THEN R_GO(A.tr[tr].t, Len(CHOOSE c \in shorter : \A d \in shorter : Len(d) <= Len(c)))
       ELSE R_NONE
SubLoop(A, w, s, ci, fuel) ==
  IF ci >= Len(w) THEN {[m |-> TRUE, s |-> s, ci |-> ci]}
  ELSE IF fuel = 0 THEN {[m |-> FALSE, s |-> s, ci |-> ci]}
  ELSE LET lp == LitPass(A, w, s, ci, 1, fuel) IN
       IF lp.r = "stop" THEN {[m |-> FALSE, s |-> s, ci |-> ci]}
       ELSE IF lp.r = "go" THEN SubLoop(A, w, lp.go, ci + lp.n, fuel - 1)
       ELSE LET cmds == KindTr(A, s, "cmd")
                tries == { <<t, CmdTry(A, w, ci, t)>> : t \in cmds }
                \* the first command (in some order) whose answer is not "none"/"skip" decides
                deciders == { x \in tries : x[2].r \in {"stop", "go"} } IN
            IF deciders # {} THEN
               UNION { IF x[2].r = "stop" THEN {[m |-> FALSE, s |-> s, ci |-> ci]} ELSE SubLoop(A, w, x[2].go, ci + x[2].n, fuel - 1) : x \in deciders }
            ELSE IF KindTr(A, s, "star") # {} THEN {[m |-> TRUE, s |-> s, ci |-> ci]}
            ELSE {[m |-> FALSE, s |-> s, ci |-> ci]}
SubRun(A, w) == SubLoop(A, w, A.start, 0, Len(w) + 1)
SubMatches(A, w) == { r.m : r \in SubRun(A, w) }         \* possible answers of `_subword_N matches`

MaxLevel(A) == LET ls == { A.tr[i].l.lv : i \in 1..Len(A.tr) } IN IF ls = {} THEN 0 ELSE CHOOSE l \in ls : \A m \in ls : m <= l
\* `_subword_N complete word`: candidates added to `matches` (a set of possible results)
SubCompleteFrom(A, w, r) ==
  LET mp == SubSeq(w, 1, r.ci)  cp == SubSeq(w, r.ci + 1, Len(w))
      AtLevel(l) == { mp \o A.lits[A.tr[i].l.lid] : i \in { j \in KindTr(A, r.s, "lit") : A.tr[j].l.lv = l } } \cup
                    UNION { { mp \o c : c \in { d \in VCands(A.tr[i].l) : Starts(d, cp) } } : i \in { j \in KindTr(A, r.s, "cmd") : A.tr[j].l.lv = l } }
      Match(l) == { c \in AtLevel(l) : Starts(c, w) }
      ls == { l \in 0..MaxLevel(A) : Match(l) # {} } IN
  IF ls = {} THEN {} ELSE Match(MinOf(ls))
SubComplete(A, w) == { SubCompleteFrom(A, w, r) : r \in SubRun(A, w) }

----------------------------------------------------------------------------
(* top level *)
\* one word before the cursor: set of outcomes, each a state (>= 0), O_FAIL (return 1), O_BREAK (break 3: go and complete here) or O_UNSURE
O_FAIL == -1
O_BREAK == -2
O_UNSURE == -3
TopStep(V, s, w, last) ==
  LET lits == { i \in 1..Len(V.lits) : V.lits[i] = w /\ LitTr(V, s, i) # {} } IN
  IF lits # {} THEN { V.tr[MinOf(LitTr(V, s, MinOf(lits)))].t }
  ELSE LET subs == KindTr(V, s, "sub")
           yes == { t \in subs : TRUE \in SubMatches(V.subs[V.tr[t].l.sub], w) }
           sure == { t \in subs : SubMatches(V.subs[V.tr[t].l.sub], w) = {TRUE} } IN
       IF yes # {} THEN { V.tr[t].t : t \in yes } \cup (IF sure = {} THEN {O_UNSURE} ELSE {})
       ELSE LET cmds == { t \in KindTr(V, s, "cmd") : VCands(V.tr[t].l) # {} }
                hit == { t \in cmds : w \in VCands(V.tr[t].l) }
                miss == cmds \ hit IN
            \* commands are tried in an unspecified order: a hit wins if tried first, a miss on the last word breaks out
            (IF hit # {} THEN { V.tr[t].t : t \in hit } ELSE {}) \cup
            (IF last /\ miss # {} THEN {O_BREAK} ELSE {}) \cup
            (IF hit = {} /\ ~(last /\ miss # {}) THEN
               (IF KindTr(V, s, "star") # {} THEN { V.tr[MinOf(KindTr(V, s, "star"))].t } ELSE {O_FAIL})
             ELSE {})
\* but with several commands some orders reach the star / return 1 only after every command was tried without a break
\* (covered: a miss on the last word always breaks before the star code is reached)

VLastBreak(x, wb) == LET is == { i \in 1..Len(x) : \E j \in 1..Len(wb) : wb[j] = x[i] } IN IF is = {} THEN 0 ELSE CHOOSE i \in is : \A j \in is : j <= i
VStrip(c, n) == IF n >= Len(c) THEN <<>> ELSE SubSeq(c, n + 1, Len(c))
\* the completion phase at state s for the typed prefix x: a set of possible replies (each a set of candidates)
Complete(V, s, x, wb) ==
  LET SubRes(l) == { t \in KindTr(V, s, "sub") : V.tr[t].l.lv = l }
      LitC(l) == { V.lits[V.tr[i].l.lid] \o <<32>> : i \in { j \in KindTr(V, s, "lit") : V.tr[j].l.lv = l } }
      CmdC(l) == UNION { VCands(V.tr[i].l) : i \in { j \in KindTr(V, s, "cmd") : V.tr[j].l.lv = l } }
      Plain(l) == { c \in LitC(l) \cup CmdC(l) : Starts(c, x) }
      \* one choice of result per within-word item of the level (the results differ only with the order of commands inside a word)
      AllRes(l) == UNION { SubComplete(V.subs[V.tr[t].l.sub], x) : t \in SubRes(l) }
      SubChoices(l) == IF SubRes(l) = {} THEN {{}}
                       ELSE { UNION { f[t] : t \in SubRes(l) } :
                              f \in { g \in [SubRes(l) -> AllRes(l)] : \A t \in SubRes(l) : g[t] \in SubComplete(V.subs[V.tr[t].l.sub], x) } }
      n == VLastBreak(x, wb)
      RECURSIVE Level(_)
      Level(l) == IF l > MaxLevel(V) THEN {{}}
                  ELSE UNION { IF Plain(l) \cup sc # {} THEN {{ VStrip(c, n) : c \in Plain(l) \cup sc }} ELSE Level(l + 1) : sc \in SubChoices(l) }
  IN Level(0)

\* the whole function: words before the cursor ws, typed prefix x -> set of outcomes [rc, reply]
RECURSIVE Run(_, _, _, _, _, _)
Run(V, s, ws, i, x, wb) ==
  IF i > Len(ws) THEN { [rc |-> 0, reply |-> r] : r \in Complete(V, s, x, wb) }
  ELSE UNION { IF o = O_FAIL THEN {[rc |-> 1, reply |-> {}]}
               ELSE IF o = O_UNSURE THEN {[rc |-> -1, reply |-> {}]}
               ELSE IF o = O_BREAK THEN { [rc |-> 0, reply |-> r] : r \in Complete(V, s, x, wb) }
               ELSE Run(V, o, ws, i + 1, x, wb) : o \in TopStep(V, s, ws[i], i = Len(ws)) }
Outcomes(V, ws, x, wb) == Run(V, V.start, ws, 1, x, wb)
=======================================================================
