---------------------------- MODULE MemoCheck ----------------------------
(* Purity as a memo table (C10, C14, C15, C11): the output for a key (abstract grammar, shell, artefact) is
   assigned at the first observation and every later observation of the same key must equal it.
   The records are consumed in order, one per step (trace validation of the observation log):
       Cases[i] = [id, key, val]        key, val: strings (val = digest of the bytes observed)
   A disagreement is reported (MISMATCH) and the trace goes on, so that every key is examined. *)
EXTENDS Naturals, Sequences, FiniteSets, TLC, Json, IOUtils

Cases == ndJsonDeserialize(IOEnv.CASES)
N == Len(Cases)
Keys == { Cases[i].key : i \in 1..N }

VARIABLES i, memo, bad
Init == i = 1 /\ memo = [k \in Keys |-> ""] /\ bad = FALSE
Observe == /\ i <= N
           /\ LET r == Cases[i] IN
              IF memo[r.key] = "" THEN memo' = [memo EXCEPT ![r.key] = r.val] /\ bad' = FALSE
              ELSE memo' = memo /\ bad' = (memo[r.key] # r.val)
           /\ i' = i + 1
Next == Observe

\* evaluated in the state reached after consuming record i - 1
Report == ~bad \/ PrintT(<<"MISMATCH", ToJson([id |-> Cases[i - 1].id, key |-> Cases[i - 1].key, val |-> Cases[i - 1].val,
                                               first |-> memo[Cases[i - 1].key]])>>)
Seen == i = 1 \/ PrintT(<<"VALIDATED", Cases[i - 1].id>>)
Consumed == i <= N \/ PrintT(<<"CONSUMED", N>>)
=======================================================================
