---------------------------- MODULE VmExplore ----------------------------
(* Design level: BashVM => Meaning.  For every corpus grammar TLC explores the product of the word-level meaning
   (Words.tla: position set P) and the emitted bash program (BashVM.tla: automaton state S of the tables read back from the
   script) over the grammar's vocabulary plus a foreign word, to a depth, and at every reachable product state compares,
   for EVERY next word as the last word before the cursor and EVERY typed prefix, the model's outcomes with what the
   meaning prescribes (status; ReplyOk).  A disagreement is a PREDICTION about the real script: the orchestrator replays
   the command line in the real bash and only what the real bash does is judged (by BashCheck.tla).
   States are identified by (case, P, S); breadth-first search keeps a shortest word sequence. *)
EXTENDS Words, BashVM, Json

MaxDepth == IF "VM_DEPTH" \in DOMAIN IOEnv THEN atoi(IOEnv.VM_DEPTH) ELSE 3
FOREIGN == <<113, 113>>
ANYTXT == <<122, 122>>
Usable(c) == Structural(c) = {}
SpecOf == [c \in 1..N |-> IF Usable(c) THEN Spec(c) ELSE <<>>]
V(c) == Cases[c].vm

\* vocabulary, as in Walk.tla
RECURSIVE SubWordsFrom(_, _, _, _)
SubWordsFrom(c, g, Q, k) ==
  (IF END \in Q THEN {<<>>} ELSE {}) \cup
  (IF k = 0 THEN {}
   ELSE UNION { LET ts == IF g.item[q].k = "star" THEN {ANYTXT} ELSE Toks(c, g.item[q]) IN
                { t \o w : t \in ts, w \in SubWordsFrom(c, g, g.fol[q], k - 1) } : q \in Q \ {END} })
RECURSIVE SubStemsFrom(_, _, _, _)
SubStemsFrom(c, g, Q, k) ==
  {<<>>} \cup (IF k = 0 THEN {} ELSE UNION { { t \o w : t \in Toks(c, g.item[q]), w \in SubStemsFrom(c, g, g.fol[q], k - 1) } : q \in Q \ {END} })
NextWords(c, sp, P) ==
  IF P = FAIL THEN {}
  ELSE UNION { LET it == sp.top.item[p] IN
               IF it.k = "lit" THEN {CpOf(c, it)} ELSE IF IsCmdK(it.k) THEN CandsOf(c, it)
               ELSE IF it.k = "sub" THEN SubWordsFrom(c, sp.sub[p], sp.sub[p].init, 3) ELSE {} : p \in P \ {END} }
Stems(c, sp, P) == IF P = FAIL THEN {} ELSE UNION { SubStemsFrom(c, sp.sub[p], sp.sub[p].init, 2) : p \in { q \in P \ {END} : sp.top.item[q].k = "sub" } }
PrefixesOf(w) == { SubSeq(w, 1, i) : i \in 0..Len(w) }
Vocabulary(c, sp, P) == NextWords(c, sp, P) \cup {FOREIGN} \cup (Stems(c, sp, P) \ {<<>>})
TryPrefixes(c, sp, P) == {<<>>, FOREIGN} \cup (IF P = FAIL THEN {} ELSE UNION { PrefixesOf(w) : w \in NextWords(c, sp, P) } \cup Stems(c, sp, P))

VARIABLES case, P, S, hist
Init == \E c \in 1..N : Usable(c) /\ case = c /\ P = SpecOf[c].top.init /\ S = V(c).start /\ hist = <<>>
sp == SpecOf[case]
\* follow a word on both sides while both agree that it is matched unambiguously
Next == /\ P # FAIL /\ Len(hist) < MaxDepth
        /\ \E w \in Vocabulary(case, sp, P) :
             /\ ~StepUnclear(case, sp, P, w)
             /\ LET o == TopStep(V(case), S, w, FALSE) IN
                /\ Cardinality(o) = 1 /\ \A x \in o : x >= 0
                /\ StepWord(case, sp, P, w) # FAIL
                /\ S' = CHOOSE x \in o : TRUE
             /\ P' = StepWord(case, sp, P, w)
             /\ hist' = Append(hist, w)
             /\ UNCHANGED case
View == <<case, P, S>>

WB == <<>>      \* word-break stripping is compared on the real runs (both settings); the exploration uses none
\* command lines examined at this state: (no further word | one more word w as the last word before the cursor) x typed prefix x
Agrees(ws, Pn, x) ==
  LET O == Run(V(case), S, ws, 1, x, WB) IN
  \/ \E o \in O : o.rc = -1
  \/ \A o \in O : o.rc = (IF Pn = FAIL THEN 1 ELSE 0) /\ ReplyOk(case, sp, Pn, x, WB, o.reply)
\* how the last word relates to the meaning (used only to spread the replay budget over different situations)
Tag(w) ==
  LET Pn == StepWord(case, sp, P, w) IN
  IF Pn = FAIL THEN
       (IF \E p \in P \ {END} : IsCmdK(sp.top.item[p].k) THEN "fail_at_command_point"
        ELSE IF \E p \in P \ {END} : sp.top.item[p].k = "sub" /\ InnerIncomplete(case, sp.sub[p], w) THEN "fail_word_incomplete"
        ELSE "fail_other")
  ELSE IF LitAt(case, sp, P, w) = {} /\ \E p \in SubAt(case, sp, P, w) : \E l \in InnerLevels(sp.sub[p]) : InnerReqAt(case, sp.sub[p], w, l) # {}
       THEN "value_with_longer_sibling"
  ELSE IF \E p \in P \ {END} : IsCmdK(sp.top.item[p].k) THEN "matched_at_command_point"
  ELSE "matched"
Bad ==
  { [words |-> <<>>, prefix |-> x, tag |-> "cursor_only"] : x \in { y \in TryPrefixes(case, sp, P) : ~Agrees(<<>>, P, y) } } \cup
  UNION { LET Pn == StepWord(case, sp, P, w) IN
          IF StepUnclear(case, sp, P, w) THEN {}
          ELSE { [words |-> <<w>>, prefix |-> x, tag |-> Tag(w)] : x \in { y \in TryPrefixes(case, sp, Pn) : ~Agrees(<<w>>, Pn, y) } }
          : w \in Vocabulary(case, sp, P) }
Report == Bad = {} \/ PrintT(<<"PREDICTION", ToJson([id |-> Cases[case].id, hist |-> hist, bad |-> Bad])>>)
Seen == PrintT(<<"EXPLORED", Cases[case].id, Len(hist)>>)
=======================================================================
