---------------------------- MODULE ScriptCheck ----------------------------
(* C04, the parts that are not language equivalence (that is Equiv.tla in mode min-script): per recorded script
     - the completion function is registered for the grammar's command name,
     - the reader met nothing it could not account for (unknown tables, dangling ids, expansions inside constants),
     - the bodies of the external-command functions are exactly the command texts of the compiled automaton's items,
     - every within-word function the main tables refer to exists, and no other. *)
EXTENDS Corpus, Automaton

VARIABLE case
Usable(c) == Obs(c).verdict = "ok"
Init == \E c \in 1..N : Usable(c) /\ case = c
Next == UNCHANGED case

O == Obs(case)
CmdTexts(d) == { d.tr[i].l.t : i \in { j \in 1..Len(d.tr) : d.tr[j].l.k \in {"cmd", "compadd"} } }
AutomatonCmds == CmdTexts(O.min) \cup UNION { CmdTexts(O.minsubs[i]) : i \in 1..Len(O.minsubs) }
ScriptCmds == RangeS(O.bodies)
Problems ==
  (IF O.registered # O.command THEN {"registered_for_other_command"} ELSE {}) \cup
  (IF Len(O.anomalies) > 0 THEN {"unaccounted_table_content"} ELSE {}) \cup
  (IF AutomatonCmds # ScriptCmds THEN {"command_bodies"} ELSE {}) \cup
  (IF Len(O.scriptsubs) # Len(O.minsubs) THEN {"within_word_function_count"} ELSE {})
Report == Problems = {} \/
          PrintT(<<"MISMATCH", ToJson([id |-> Cases[case].id, problems |-> Problems, registered |-> O.registered,
                                       anomalies |-> O.anomalies, automatoncmds |-> AutomatonCmds, scriptcmds |-> ScriptCmds])>>)
Seen == PrintT(<<"VALIDATED", Cases[case].id>>)
=======================================================================
