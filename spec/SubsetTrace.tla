---------------------------- MODULE SubsetTrace ----------------------------
(* Trace validation of src/dfa.rs::dfa_from_regex (and of what do_minimize does after the refinement) against Subset.tla:
   the events the instrumented code (cargo feature `verif`) reported while building one automaton must be a behaviour of
   the specification.
     sc_init(first, follow, sym, end, ninp)   the position system (it IS the case: Subset's constants are read from it)
     sc_pop(id, set)   sc_edge(from, inp, to, set, new)   sc_done(acc, n)
   One event per specification action, emitted after the state change.  Inputs with an empty target and the end of a
   state's inputs are not reported by the code and are taken silently (each is enabled only when the specification says
   that nothing is to be reported, so the search is linear).  For the top-level automaton of a grammar the record also
   carries the automaton that left do_minimize (`min`): the specification's Final for the recorded pop order must be that
   automaton, number for number.
   Cases: [id, end, first, follow, sym, ninp, events, hasmin, mintr: <<<<from, input, to>>>>, minacc].
   A trace that is not accepted is reported with the longest matched prefix (the highest AT): the code's steps have drifted from
   the specification.  That is not by itself a property violation (C02 / C03 judge the automata); it is a note. *)
EXTENDS Subset

Ev(c) == D[c].events
VARIABLE l
tvars == <<vars, l>>

TInit == Init /\ l = 1
Is(e) == l <= Len(Ev(case)) /\ Ev(case)[l].ev = e
E == Ev(case)[l]
Consume == l' = l + 1
Silent == l' = l

TPop == /\ Is("sc_pop") /\ Pop /\ cur' = ToSet(E.set) /\ IdIn(sets, ToSet(E.set)) = E.id /\ Consume
TEdge == /\ Is("sc_edge") /\ pc = "inputs" /\ inpi = E.inp /\ Step
         /\ Move(case, cur, inpi) = ToSet(E.set) /\ ToSet(E.set) # {}
         /\ E.from = IdIn(sets, cur) /\ E.to = IdIn(sets', ToSet(E.set))
         /\ (E.new <=> ~Known(ToSet(E.set)))
         /\ Consume
\* steps the code takes without reporting them
TNoEdge == /\ pc = "inputs" /\ inpi < D[case].ninp /\ Move(case, cur, inpi) = {} /\ Step /\ Silent
TEndInputs == EndInputs /\ Silent
TDone == /\ Is("sc_done") /\ Finish /\ E.n = Len(sets) /\ ToSet(E.acc) = Accepting /\ Consume
TNext == TPop \/ TEdge \/ TNoEdge \/ TEndInputs \/ TDone

MinTr(c) == { <<D[c].mintr[i][1], D[c].mintr[i][2], D[c].mintr[i][3]>> : i \in 1..Len(D[c].mintr) }
FinalMatches == LET f == Final IN f.tr = MinTr(case) /\ f.acc = ToSet(D[case].minacc) /\ f.lost = {}
Accepted == l = Len(Ev(case)) + 1 /\ pc = "done"
ReportAccepted == ~Accepted \/ PrintT(<<"ACCEPTED", D[case].id>>)
ReportFinal == ~(Accepted /\ D[case].hasmin) \/ (IF FinalMatches THEN PrintT(<<"FINALOK", D[case].id>>) ELSE PrintT(<<"FINALDIFF", D[case].id, ToJson(Final)>>))
ReportProgress == PrintT(<<"AT", D[case].id, l - 1>>)
=======================================================================
