INIT Init
NEXT Next
VIEW View
INVARIANT Emit
CHECK_DEADLOCK FALSE
