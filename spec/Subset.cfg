INIT Init
NEXT Next
INVARIANT ReportDense
INVARIANT ReportDeterministic
INVARIANT ReportComplete
INVARIANT ReportExact
INVARIANT ReportPopped
INVARIANT Terminated
CHECK_DEADLOCK FALSE
