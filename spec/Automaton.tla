---------------------------- MODULE Automaton ----------------------------
(* Operators over an automaton recorded from the implementation (JSON):
     d = [start, acc: <<state>>, tr: <<[f, l: label, t]>>],  subs = <<d>>  (within-word automata)
   label = [k, t, d, hd, lv, sub]  with sub = index into subs for k = "sub".
   Flat labelled language (same encoding as Meaning), reachability, co-reachability and the
   Nerode partition (Moore refinement). *)
EXTENDS Naturals, Integers, Sequences, FiniteSets, TLC

ALab(l) == [k |-> l.k, t |-> l.t, d |-> l.d, hd |-> l.hd, lv |-> l.lv]
AOpen(lv) == [k |-> "open", t |-> "", d |-> "", hd |-> FALSE, lv |-> lv]
AClose == [k |-> "close", t |-> "", d |-> "", hd |-> FALSE, lv |-> 0]

TrFrom(d, s) == { i \in 1..Len(d.tr) : d.tr[i].f = s }
IsAcc(d, s) == \E i \in 1..Len(d.acc) : d.acc[i] = s
AStates(d) == {d.start} \cup { d.tr[i].f : i \in 1..Len(d.tr) } \cup { d.tr[i].t : i \in 1..Len(d.tr) }
                        \cup { d.acc[i] : i \in 1..Len(d.acc) }

IInit(d) == [m |-> "top", P |-> {d.start}]
IAcc(d, R) == R.m = "top" /\ \E s \in R.P : IsAcc(d, s)
IEn(d, subs, R) ==
  IF R.m = "top" THEN
     { IF d.tr[i].l.k = "sub" THEN AOpen(d.tr[i].l.lv) ELSE ALab(d.tr[i].l) : i \in UNION { TrFrom(d, s) : s \in R.P } }
  ELSE UNION { { ALab(subs[x.id].tr[i].l) : i \in TrFrom(subs[x.id], x.q) } : x \in R.S } \cup
       (IF \E x \in R.S : IsAcc(subs[x.id], x.q) THEN {AClose} ELSE {})
IStep(d, subs, R, a) ==
  IF R.m = "top" THEN
     IF a.k = "open" THEN
        [m |-> "in", S |-> { [id |-> d.tr[i].l.sub, q |-> subs[d.tr[i].l.sub].start, t |-> d.tr[i].t] :
                             i \in { j \in UNION { TrFrom(d, s) : s \in R.P } : d.tr[j].l.k = "sub" /\ d.tr[j].l.lv = a.lv } }]
     ELSE [m |-> "top", P |-> { d.tr[i].t : i \in { j \in UNION { TrFrom(d, s) : s \in R.P } : d.tr[j].l.k # "sub" /\ ALab(d.tr[j].l) = a } }]
  ELSE
     IF a.k = "close" THEN [m |-> "top", P |-> { x.t : x \in { y \in R.S : IsAcc(subs[y.id], y.q) } }]
     ELSE [m |-> "in", S |-> UNION { { [id |-> x.id, q |-> subs[x.id].tr[i].t, t |-> x.t] :
                                       i \in { j \in TrFrom(subs[x.id], x.q) : ALab(subs[x.id].tr[j].l) = a } } : x \in R.S }]

----------------------------------------------------------------------------
(* structure of one automaton over its own alphabet (the label including the within-word id) *)
Succ(d, S) == { d.tr[i].t : i \in UNION { TrFrom(d, s) : s \in S } }
Pred(d, S) == { d.tr[i].f : i \in { j \in 1..Len(d.tr) : d.tr[j].t \in S } }
RECURSIVE Grow(_, _, _, _)
Grow(d, fwd, seen, frontier) ==
  IF frontier = {} THEN seen
  ELSE LET new == (IF fwd THEN Succ(d, frontier) ELSE Pred(d, frontier)) \ seen IN Grow(d, fwd, seen \cup new, new)
Reach(d) == Grow(d, TRUE, {d.start}, {d.start})
CoReach(d) == LET a == { d.acc[i] : i \in 1..Len(d.acc) } IN Grow(d, FALSE, a, a)

Alphabet(d) == { d.tr[i].l : i \in 1..Len(d.tr) }
\* target of s on symbol a, -1 = no transition
Delta(d, s, a) == LET is == { i \in TrFrom(d, s) : d.tr[i].l = a } IN
                  IF is = {} THEN -1 ELSE d.tr[CHOOSE i \in is : TRUE].t
Deterministic(d) == \A s \in AStates(d) : \A a \in Alphabet(d) : Cardinality({ i \in TrFrom(d, s) : d.tr[i].l = a }) <= 1
BlockOf(P, s) == CHOOSE B \in P : s \in B
Sig(d, P, s) == [a \in Alphabet(d) |-> LET t == Delta(d, s, a) IN IF t = -1 \/ t \notin UNION P THEN {} ELSE BlockOf(P, t)]
Refine(d, P) == UNION { { { s \in B : Sig(d, P, s) = Sig(d, P, r) } : r \in B } : B \in P }
RECURSIVE Moore(_, _)
Moore(d, P) == LET Q == Refine(d, P) IN IF Q = P THEN P ELSE Moore(d, Q)
\* Nerode classes of the useful part (states that are reachable and can reach acceptance)
Useful(d) == Reach(d) \cap CoReach(d)
Nerode(d) ==
  LET U == Useful(d)  A == { s \in U : IsAcc(d, s) }  B == U \ A IN
  Moore([d EXCEPT !.tr = SelectSeq(d.tr, LAMBDA x : x.f \in U /\ x.t \in U)], { X \in {A, B} : X # {} })
=======================================================================
