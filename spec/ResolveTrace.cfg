INIT TInit
NEXT TNext
INVARIANT ReportAccepted
INVARIANT ReportProgress
INVARIANT ReportWalk
INVARIANT ReportCycleSound
INVARIANT ReportCycleComplete
INVARIANT ReportReachable
INVARIANT ReportOrderOk
INVARIANT ReportOnce
CHECK_DEADLOCK FALSE
INVARIANT ReportExpect
INVARIANT ReportFullyResolved
