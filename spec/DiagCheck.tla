---------------------------- MODULE DiagCheck ----------------------------
(* C13 (diagnostics point at the construct they complain about) and C15 (warnings are complete, precise and
   harmless).  One TLC state per recorded run of the command.  The file was printed by the generator from a
   token list under a TLC-chosen layout (Cases[c].blanks); Syntax.Starts recomputes where every token starts,
   Usage says which names are undefined / unused / duplicated / cyclic, and each located line of the recorded
   stderr  <path>:<line>:<col>:<severity>[: message]  must point at the start of a token of the right sort:
     undefined            a reference <N> with N in Usage.Undefined
     unused               the left-hand side of a plain definition of N in Usage.UnusedPlain
     unused_spec          the left-hand side of <N@target> with N in Usage.UnusedSpec
     duplicate_def / previous_def   left-hand sides of two different definitions of one name (same shell tag)
     unknown_shell        the shell name inside <N@shell>
     varying_names / invalid_name   a command name
     noncommand_spec      the first token of the right-hand side of a shell-specific definition
     cycle                a definition's left-hand side or a reference, of a name that leads into a cycle
     subword_spaces (1st, 2nd)      literals;  trace lines: references
     unbounded (1st)      a placeholder reference;  (2nd) a literal / reference / command
     parse                the first token of the first statement that does not parse
   and the echoed source line must be that line of the file (compared by the harness as plain text: snip). *)
EXTENDS Meaning, Syntax

VARIABLE case
Init == \E c \in 1..N : case = c
Next == UNCHANGED case

St == Starts(case, Cases[case].blanks)
T(i) == Toks(case)[i]
Diags == Obs(case).diags                       \* << [cls, sev, line, col, snip] >>
At(d) == TokAt(case, St, d.line, d.col)

DupNames == { a \in PlainNames(case) : Cardinality(DefIdx(case, a, "")) > 1 } \cup
            { a \in SpecNames(case, Shell(case)) : Cardinality(DefIdx(case, a, Shell(case))) > 1 }
CycNames == { a \in PlainNames(case) : a \in DependsTrans(case, a) }
ReachCyc == { a \in PlainNames(case) : a \in CycNames \/ DependsTrans(case, a) \cap CycNames # {} }
\* first token of the right-hand side of the definition statement that token j (an assign token) belongs to
DefHead(s) == { j \in 1..NT(case) : T(j).kind = "defname" /\ T(j).stmt = s }

Fits(d) ==      \* token indices that line d may point at
  LET toks == 1..NT(case) IN
  CASE d.cls = "undefined"   -> { i \in toks : T(i).kind = "ref" /\ T(i).name \in Undefined(case) }
    [] d.cls = "unused"      -> { i \in toks : T(i).kind = "defname" /\ T(i).sh = "" /\ T(i).name \in UnusedPlain(case) }
    [] d.cls = "unused_spec" -> { i \in toks : T(i).kind = "defname" /\ T(i).sh = Shell(case) /\ T(i).name \in UnusedSpec(case) }
    [] d.cls \in {"duplicate_def", "previous_def"} -> { i \in toks : T(i).kind = "defname" /\ T(i).name \in DupNames }
    [] d.cls = "unknown_shell" -> {}            \* handled by ShellNameAt
    [] d.cls = "varying_names" -> { i \in toks : T(i).kind = "cmdname" }
    [] d.cls = "invalid_name"  -> { i \in toks : T(i).kind = "cmdname" /\ T(i).slash }
    [] d.cls = "noncommand_spec" -> { i \in toks : i > 1 /\ T(i - 1).kind = "assign" /\
                                       \E j \in DefHead(T(i).stmt) : T(j).sh # "" }
    [] d.cls = "cycle"       -> { i \in toks : T(i).kind \in {"defname", "ref"} /\ T(i).name \in ReachCyc }
    [] d.cls \in {"subword_spaces", "subword_spaces_2"} -> { i \in toks : T(i).kind = "lit" }
    [] d.cls = "trace"       -> { i \in toks : T(i).kind = "ref" }
    [] d.cls = "unbounded"   -> { i \in toks : T(i).kind = "ref" /\ Chosen(case, T(i).name).tag = "star" }
    [] d.cls = "unbounded_2" -> { i \in toks : T(i).kind \in {"lit", "ref", "cmd"} }
    [] d.cls = "parse"       -> { i \in toks : T(i).kind \in {"cmdname", "defname"} /\ T(i).stmt = Cases[case].badstmt }
    [] OTHER -> {}
\* <N@shell>: the shell name starts shoff characters into the token
ShellNameAt(d) == \E i \in 1..NT(case) : T(i).kind = "defname" /\ T(i).sh \notin (KnownShells \cup {""}) /\
                     St[i].line = d.line /\ St[i].col + T(i).shoff = d.col
Located(d) == IF d.cls = "unknown_shell" THEN ShellNameAt(d) ELSE At(d) \cap Fits(d) # {}
Known(d) == d.cls \in {"undefined", "unused", "unused_spec", "duplicate_def", "previous_def", "unknown_shell", "varying_names", "invalid_name",
                       "noncommand_spec", "cycle", "subword_spaces", "subword_spaces_2", "trace", "unbounded", "unbounded_2", "parse"}

BadLocation == { k \in 1..Len(Diags) : Known(Diags[k]) /\ ~Located(Diags[k]) }
BadSnippet == { k \in 1..Len(Diags) : ~Diags[k].snip }
\* the two lines of a duplicate-definition diagnostic name two different definitions
\* the two literals of a "spaces inside a word" diagnostic are neighbours: the first is the last literal before the blank, the
\* second the first literal after it - nothing but parentheses / brackets lies between them
Between(i, j) == { T(k).kind : k \in (i + 1)..(j - 1) }
SpacesPairBad == \E k \in 1..(Len(Diags) - 1) : Diags[k].cls = "subword_spaces" /\ Diags[k + 1].cls = "subword_spaces_2" /\
                   ~\E i \in At(Diags[k]) \cap Fits(Diags[k]) : \E j \in At(Diags[k + 1]) \cap Fits(Diags[k + 1]) :
                        \/ T(i).stmt # T(j).stmt          \* one of them is reached through a definition
                        \/ i < j /\ Between(i, j) \subseteq {"lparen", "rparen", "lbrack", "rbrack"}
\* "Previous definition" names the definition that comes first in the file, "Duplicate ..." the later one
DupOrderBad == \E k \in 1..(Len(Diags) - 1) : Diags[k].cls = "duplicate_def" /\ Diags[k + 1].cls = "previous_def" /\
                 \E i \in At(Diags[k]) \cap Fits(Diags[k]) : \E j \in At(Diags[k + 1]) \cap Fits(Diags[k + 1]) : i < j
DupSame == \E k \in 1..(Len(Diags) - 1) : Diags[k].cls = "duplicate_def" /\ Diags[k + 1].cls = "previous_def" /\
              Diags[k].line = Diags[k + 1].line /\ Diags[k].col = Diags[k + 1].col

----------------------------------------------------------------------------
(* C15 *)
WarnIdx == { k \in 1..Len(Diags) : Diags[k].sev = "warning" }
NameAt(d) == LET is == At(d) \cap Fits(d) IN IF is = {} THEN "?" ELSE T(CHOOSE i \in is : TRUE).name
ObservedW == { <<Diags[k].cls, NameAt(Diags[k])>> : k \in WarnIdx }
ExpectedW == { <<"undefined", a>> : a \in Undefined(case) } \cup { <<"unused", a>> : a \in UnusedPlain(case) } \cup
             { <<"unused_spec", a>> : a \in UnusedSpec(case) }
WarnOnce == Cardinality(WarnIdx) = Cardinality(ObservedW)
Clean == Structural(case) = {} /\ ~GrayPlainOfSpecialised(case)

Aspects ==
  (IF BadLocation # {} \/ DupSame \/ SpacesPairBad \/ DupOrderBad THEN {"location"} ELSE {}) \cup
  (IF BadSnippet # {} THEN {"snippet"} ELSE {}) \cup
  (IF Clean /\ Obs(case).exit = 0 /\ ObservedW # ExpectedW THEN {"warning_set"} ELSE {}) \cup
  (IF Clean /\ Obs(case).exit = 0 /\ ~WarnOnce THEN {"warning_repeated"} ELSE {}) \cup
  (IF Clean /\ Cases[case].expect_ok /\ Obs(case).exit # 0 THEN {"exit"} ELSE {})

Report == Aspects = {} \/
  PrintT(<<"MISMATCH", ToJson([id |-> Cases[case].id, aspects |-> Aspects,
        badloc |-> { [k |-> k, cls |-> Diags[k].cls, line |-> Diags[k].line, col |-> Diags[k].col,
                      fits |-> { [line |-> St[i].line, col |-> St[i].col] : i \in Fits(Diags[k]) }] : k \in BadLocation },
        missing |-> ExpectedW \ ObservedW, extra |-> ObservedW \ ExpectedW, exit |-> Obs(case).exit])>>)
Seen == PrintT(<<"VALIDATED", Cases[case].id, Len(Diags)>>)
=======================================================================
