---------------------------- MODULE LevelsCheck ----------------------------
(* C09(b): `||` is transparent to matching.  Each record holds the answers of the real bash to ONE command line on the
   script compiled from grammar G and on the script compiled from G with every `||` replaced by `|`:
       [id, queries: << [rc, reply, rce, replye] >>]     (reply sets as sequences of code-point sequences)
   Required:  same return code (the same command lines are matched);
              every candidate offered for G is offered for the `|` grammar;
              if the `|` grammar offers something, G offers something (its first non-empty level). *)
EXTENDS Naturals, Sequences, FiniteSets, TLC, Json, IOUtils

Cases == ndJsonDeserialize(IOEnv.CASES)
N == Len(Cases)
RangeS(s) == { s[i] : i \in 1..Len(s) }
VARIABLES case, qi
Init == \E c \in 1..N : \E i \in 1..Len(Cases[c].queries) : case = c /\ qi = i
Next == UNCHANGED <<case, qi>>
Q == Cases[case].queries[qi]
RcSame == Q.rc = Q.rce
Subset == RangeS(Q.reply) \subseteq RangeS(Q.replye)
NonEmpty == RangeS(Q.replye) # {} => RangeS(Q.reply) # {}
Failed == (IF RcSame THEN {} ELSE {"matching_differs"}) \cup (IF Subset THEN {} ELSE {"candidate_not_in_erased"}) \cup
          (IF NonEmpty THEN {} ELSE {"nothing_offered"})
Report == Failed = {} \/ PrintT(<<"MISMATCH", ToJson([id |-> Cases[case].id, qi |-> qi, failed |-> Failed])>>)
Seen == PrintT(<<"VALIDATED", Cases[case].id, qi>>)
=======================================================================
