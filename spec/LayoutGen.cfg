INIT LInit
NEXT LNext
INVARIANT LEmit
CHECK_DEADLOCK FALSE
