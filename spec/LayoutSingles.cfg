INIT SInit
NEXT LNext
INVARIANT LEmit
CHECK_DEADLOCK FALSE
