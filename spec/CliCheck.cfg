INIT Init
NEXT Next
INVARIANT Accept
INVARIANT Started
INVARIANT ExitOk
INVARIANT FailureIsClean
INVARIANT SuccessIsComplete
INVARIANT DotOnlyWhenAsked
CHECK_DEADLOCK FALSE
