---------------------------- MODULE BashCheck ----------------------------
(* impl -> spec: every recorded completion of the real bash (reply set, return code, probe log) is validated
   against the word-level meaning (Words.tla).  One TLC state per recorded query.
   Queries in regions the property statements assign elsewhere or leave open are counted as SKIPPED. *)
EXTENDS Words

Usable(c) == Structural(c) = {}
SpecOf == [c \in 1..N |-> IF Usable(c) THEN Spec(c) ELSE <<>>]

VARIABLES case, qi
Init == \E c \in 1..N : Usable(c) /\ \E i \in 1..Len(Cases[c].queries) : case = c /\ qi = i
Next == UNCHANGED <<case, qi>>

sp == SpecOf[case]
Q == Cases[case].queries[qi]
WB == Q.wb
PathP == Walk(case, sp, sp.top.init, Q.words, 1)
Unclear == WalkUnclear(case, sp, sp.top.init, Q.words, 1)
ExpRc == IF PathP = FAIL THEN 1 ELSE 0
Reply == RangeS(Q.reply)
Calls == { [probe |-> Q.calls[i].probe, a1 |-> Q.calls[i].a1, a2 |-> Q.calls[i].a2] : i \in 1..Len(Q.calls) }

RcOk == Q.rc = ExpRc
ReplyGood == ReplyOk(case, sp, PathP, Q.prefix, WB, Reply)
Required == RequiredCalls(case, sp, PathP, Q.prefix)
ReqOk == Required \subseteq Calls
Allowed == AllowedProbes(case, sp, sp.top.init, Q.words, 1)
JustOk == \A cl \in Calls : cl.probe \in Allowed

\* a within-word expression in which one literal text occurs with two different labels
DupTextIn(g) == \E p, q \in DOMAIN g.item : g.item[p].k = "lit" /\ g.item[q].k = "lit" /\ g.item[p].t = g.item[q].t /\
                                          Lab(g.item[p]) # Lab(g.item[q])
\* the word is made of complete tokens of a within-word expression expected here that is not finished by it
UnfinishedAt(P, w) == \E p \in P \ {END} : sp.top.item[p].k = "sub" /\ InnerIncomplete(case, sp.sub[p], w)
DupAt(P) == \E p \in P \ {END} : sp.top.item[p].k = "sub" /\ DupTextIn(sp.sub[p])
\* classes of the typed words relative to the specification state (diagnosis vocabulary, DESIGN.md 6.4)
WordClass(P, w) ==
  IF P = FAIL THEN "after_fail"
  ELSE LET lit == LitAt(case, sp, P, w)  sub == SubAt(case, sp, P, w)  cmd == CmdAt(case, sp, P, w)  star == StarAt(sp, P) IN
       IF lit # {} THEN "literal"
       ELSE IF sub # {} THEN
              (IF UnfinishedAt(P, w) THEN "word_value_beside_unfinished_word"
               ELSE IF \E p \in sub : \E l \in InnerLevels(sp.sub[p]) : InnerReqAt(case, sp.sub[p], w, l) # {}
               THEN "word_value_with_longer_sibling" ELSE "word_value")
       ELSE IF cmd # {} THEN
              (IF UnfinishedAt(P, w) THEN "command_candidate_beside_unfinished_word"
               ELSE IF \E p \in P \ {END} : IsCmdK(sp.top.item[p].k) /\ w \notin CandsOf(case, sp.top.item[p])
               THEN "command_candidate_beside_other_command"
               ELSE IF 32 \in RangeS(w) THEN "command_candidate_with_blank" ELSE "command_candidate")
       ELSE IF star # {} THEN
              (IF \E p \in P \ {END} : sp.top.item[p].k = "sub" /\ InnerIncomplete(case, sp.sub[p], w) THEN "any_word_beside_unfinished_word"
               ELSE IF \E p \in P \ {END} : IsCmdK(sp.top.item[p].k) THEN "any_word_at_command_point" ELSE "any_word")
       ELSE IF \E p \in P \ {END} : sp.top.item[p].k = "sub" /\ InnerIncomplete(case, sp.sub[p], w) THEN "fail_word_incomplete"
       ELSE IF \E p \in P \ {END} : IsCmdK(sp.top.item[p].k) THEN "fail_not_a_command_candidate"
       ELSE "fail_foreign"
RECURSIVE Classes(_, _, _)
Classes(P, ws, i) == IF i > Len(ws) THEN <<>> ELSE <<WordClass(P, ws[i])>> \o Classes(StepWord(case, sp, P, ws[i]), ws, i + 1)
\* some within-word expression expected along the typed words has one literal text under two labels
RECURSIVE DupOnPath(_, _, _)
DupOnPath(P, ws, i) == IF P = FAIL THEN FALSE ELSE DupAt(P) \/ (i <= Len(ws) /\ DupOnPath(StepWord(case, sp, P, ws[i]), ws, i + 1))
CursorClass ==
  IF PathP = FAIL THEN "after_fail"
  ELSE IF Q.prefix = <<>> THEN "empty"
  ELSE IF \E l \in Levels(sp, PathP) : OptAt(case, sp, PathP, Q.prefix, l) # {} THEN
         (IF \E l \in Levels(sp, PathP) : ReqAt(case, sp, PathP, Q.prefix, l) # {} THEN "word_value_with_longer_sibling" ELSE "word_value_complete")
  ELSE IF \E l \in Levels(sp, PathP) : ReqAt(case, sp, PathP, Q.prefix, l) # {} THEN "partial"
  ELSE "no_candidate"
\* kinds of item the missing / extra candidates belong to
KindOfCand(cd) ==
  IF PathP = FAIL THEN "none"
  ELSE LET n == LastBreak(Q.prefix, WB)
           ps == PathP \ {END} IN
       IF \E p \in ps : sp.top.item[p].k = "lit" /\ Strip(CpOf(case, sp.top.item[p]) \o SP, n) = cd THEN "lit"
       ELSE IF \E p \in ps : IsCmdK(sp.top.item[p].k) /\ \E x \in CandsOf(case, sp.top.item[p]) : Strip(x, n) = cd THEN "cmd"
       ELSE IF \E p \in ps : sp.top.item[p].k = "sub" THEN "sub_or_other" ELSE "other"

CursorDup == PathP # FAIL /\ \E p \in PathP \ {END} : sp.top.item[p].k = "sub" /\ DupTextIn(sp.sub[p])

Failed == (IF RcOk THEN {} ELSE {"rc"}) \cup (IF ReplyGood THEN {} ELSE {"reply"}) \cup
          (IF ReqOk THEN {} ELSE {"required_call"}) \cup (IF JustOk THEN {} ELSE {"unjustified_call"})
Pred == IF PathP = FAIL THEN {} ELSE { Strip(cd, LastBreak(Q.prefix, WB)) : cd \in Predicted(case, sp, PathP, Q.prefix) }

Report ==
  Unclear \/ Failed = {} \/
  PrintT(<<"MISMATCH", ToJson([id |-> Cases[case].id, qi |-> qi, failed |-> Failed,
              exprc |-> ExpRc, predicted |-> Pred, missing |-> Pred \ Reply, extra |-> Reply \ Pred,
              missingkinds |-> { KindOfCand(cd) : cd \in Pred \ Reply }, extrakinds |-> { KindOfCand(cd) : cd \in Reply \ Pred },
              required |-> Required \ Calls, unjustified |-> { cl \in Calls : cl.probe \notin Allowed },
              classes |-> Classes(sp.top.init, Q.words, 1), cursor |-> CursorClass, cursordup |-> CursorDup,
              pathdup |-> DupOnPath(sp.top.init, Q.words, 1)])>>)
Seen == PrintT(<<IF Unclear THEN "SKIPPED" ELSE "VALIDATED", Cases[case].id, qi>>)
=======================================================================
