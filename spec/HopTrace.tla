---------------------------- MODULE HopTrace ----------------------------
(* Trace validation of src/dfa.rs::do_minimize against Hopcroft.tla: the events the instrumented code (cargo feature
   `verif`) reported while minimising one automaton must be a behaviour of the specification.
     init(blocks)  pop(group)  input(from)  split(inside, outside, stale)  done(blocks)
   One event per specification action, emitted after the state change; the specification's steps that the code does not
   report (an overlapping block that is not split, the end of an input, the end of a popped group) are taken silently.
   Variables the events do not mention are inferred by the specification's own actions.
   Cases: [id, n, m, tr, acc, events].  A trace that is not accepted is reported as NOT-A-BEHAVIOUR with the longest
   matched prefix: the code's steps have drifted from the specification (not by itself a property violation: C03 judges
   the result of minimisation). *)
EXTENDS Hopcroft

Ev(c) == D[c].events
ToSet(s) == { s[i] : i \in 1..Len(s) }
VARIABLE l
tvars == <<vars, l>>

TInit == /\ Init /\ l = 2
         /\ Len(Ev(case)) >= 1 /\ Ev(case)[1].ev = "init"
         /\ { ToSet(Ev(case)[1].blocks[i]) : i \in 1..Len(Ev(case)[1].blocks) } = parts
Is(e) == l <= Len(Ev(case)) /\ Ev(case)[l].ev = e
E == Ev(case)[l]
Consume == l' = l + 1
Silent == l' = l

TPop == Is("pop") /\ Pop /\ grp' = ToSet(E.group) /\ Consume
TInput == Is("input") /\ pc = "input" /\ pend # {} /\ PickInput /\ X' = ToSet(E.from) /\ Consume
TSplit == /\ Is("split") /\ pc = "split" /\ Split
          /\ \E P \in ov : P \cap X = ToSet(E.inside) /\ P \ X = ToSet(E.outside) /\ parts' = (parts \ {P}) \cup {P \cap X, P \ X}
                           /\ (E.stale <=> P = grp)
          /\ Consume
\* steps the code takes without reporting them
TSkipBlock == /\ pc = "split" /\ ov # {} /\ Split /\ parts' = parts /\ Silent
TEndInput == /\ pc = "split" /\ ov = {} /\ Split /\ Silent
TEndGroup == /\ pc = "input" /\ pend = {} /\ PickInput /\ Silent
\* inputs whose pre-image overlaps no block other than by inclusion are still reported by the code (an `input` event)
TDone == /\ Is("done") /\ Finish /\ Consume
         /\ { ToSet(E.blocks[i]) : i \in 1..Len(E.blocks) } = parts
TNext == TPop \/ TInput \/ TSplit \/ TSkipBlock \/ TEndInput \/ TEndGroup \/ TDone

\* acceptance: some behaviour consumes the whole trace; the longest matched prefix is kept in a TLC register (workers = 1)
Progress == TLCSet(1, IF l - 1 > TLCGet(1) THEN l - 1 ELSE TLCGet(1))
Accepted == l = Len(Ev(case)) + 1 /\ pc = "done"
ReportAccepted == ~Accepted \/ PrintT(<<"ACCEPTED", D[case].id>>)
Matched == PrintT(<<"MATCHED", D[case].id, l - 1, Len(Ev(case))>>)
=======================================================================
