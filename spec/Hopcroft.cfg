INIT Init
NEXT Next
INVARIANT ReportSound
INVARIANT ReportMinimal
INVARIANT Terminated
CHECK_DEADLOCK FALSE
