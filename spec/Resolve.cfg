INIT Init
NEXT Next
INVARIANT ReportWalk
INVARIANT ReportCycleSound
INVARIANT ReportCycleComplete
INVARIANT ReportReachable
INVARIANT ReportOrderOk
INVARIANT ReportOnce
INVARIANT Terminated
CHECK_DEADLOCK FALSE
INVARIANT ReportFullyResolved
