---------------------------- MODULE Cli ----------------------------
(* The complgen command as a phase / effect machine (C06), structured like src/main.rs::aot:

     ReadInput -> Parse -> PickShell -> Validate -> Regex -> Warn -> [WriteRegexDot] -> BuildDfa -> Minimize
               -> [WriteDfaDot] -> AmbiguityCheck -> OpenDestination -> Emit -> Exit0

   Whether a phase fails depends on the input file, which this model leaves open (nondeterministic choice), so
   the model describes every outcome the design admits.  Effects: stderr (empty / non-empty), the script
   destination (untouched / complete), the two optional Graphviz files, the exit status.
   Design-level invariants (checked by TLC on the model itself):
       exit = 1  =>  stderr non-empty  /\  destination untouched
       exit = 0  =>  destination holds the complete script
       no other exit status; warnings never lead to exit 1
   Conformance: every recorded run of the real command (options + observed terminal state) must be a terminal
   state of this model for the same options (Accepts). *)
EXTENDS Naturals, Integers, Sequences, FiniteSets, TLC

Phases == <<"ReadInput", "Parse", "PickShell", "Validate", "Regex", "Warn", "WriteRegexDot", "BuildDfa", "Minimize",
            "WriteDfaDot", "AmbiguityCheck", "OpenDestination", "Emit", "Done">>
\* phases that can end the run with a diagnostic
Failing == {"ReadInput", "Parse", "Validate", "Regex", "BuildDfa", "AmbiguityCheck", "OpenDestination"}

VARIABLES pc, exit, stderr, dest, regexfile, dfafile, opt
cvars == <<pc, exit, stderr, dest, regexfile, dfafile, opt>>

\* opt = [dest: "stdout" | "file" | "existing" | "unwritable", dfa: BOOLEAN, regex: BOOLEAN, input: "file" | "missing" | "stdin"]
Options == [dest : {"stdout", "file", "existing", "unwritable"}, dfa : BOOLEAN, regex : BOOLEAN, input : {"file", "missing", "stdin"}]

CInit(o) == pc = 1 /\ exit = -1 /\ stderr = "empty" /\ dest = "untouched" /\ regexfile = "absent" /\ dfafile = "absent" /\ opt = o

Phase == Phases[pc]
Fail == /\ Phase \in Failing
        /\ (Phase = "OpenDestination" => opt.dest = "unwritable")    \* the only way opening the destination fails here
        /\ stderr' = "nonempty" /\ exit' = 1 /\ pc' = Len(Phases)
        /\ UNCHANGED <<dest, regexfile, dfafile, opt>>
Step == /\ Phase # "Done" /\ exit = -1
        /\ (Phase = "ReadInput" => opt.input # "missing")
        /\ (Phase = "OpenDestination" => opt.dest # "unwritable")
        /\ pc' = pc + 1
        /\ stderr' = stderr
        /\ regexfile' = (IF Phase = "WriteRegexDot" /\ opt.regex THEN "written" ELSE regexfile)
        /\ dfafile' = (IF Phase = "WriteDfaDot" /\ opt.dfa THEN "written" ELSE dfafile)
        /\ dest' = (IF Phase = "Emit" THEN "complete" ELSE dest)
        /\ exit' = (IF Phase = "Emit" THEN 0 ELSE exit)
        /\ UNCHANGED opt
\* warnings (undefined / unused nonterminals, the zsh file-name notice) only write to stderr
Warn == /\ Phase \in {"Warn", "Emit"} /\ exit = -1 /\ stderr = "empty"
        /\ stderr' = "nonempty" /\ UNCHANGED <<pc, exit, dest, regexfile, dfafile, opt>>
CNext == Fail \/ Step \/ Warn

Terminal == exit # -1
\* design-level invariants
ExitOk == exit \in {-1, 0, 1}
FailureIsClean == exit = 1 => stderr = "nonempty" /\ dest = "untouched"
SuccessIsComplete == exit = 0 => dest = "complete"
DotOnlyWhenAsked == (regexfile = "written" => opt.regex) /\ (dfafile = "written" => opt.dfa)
=======================================================================
