---------------------------- MODULE LayoutGen ----------------------------
(* spec -> impl: the layout state machine over Syntax.tla.  One behaviour = one layout of one case. *)
EXTENDS Syntax

(* the layout state machine: one behaviour = one layout of one case; at most MaxDev boundaries deviate from
   the canonical blank *)
MaxDev == IF "MAXDEV" \in DOMAIN IOEnv THEN atoi(IOEnv.MAXDEV) ELSE 1

VARIABLES case, i, chosen, devs
lvars == <<case, i, chosen, devs>>
LInit == \E c \in 1..N : case = c /\ i = 1 /\ chosen = <<>> /\ devs = 0
LNext == /\ i <= NT(case)
         /\ \E b \in Menu(Toks(case)[i].pre) :
              /\ (b = Toks(case)[i].dflt \/ devs < MaxDev)
              /\ devs' = devs + (IF b = Toks(case)[i].dflt THEN 0 ELSE 1)
              /\ chosen' = Append(chosen, b)
         /\ i' = i + 1 /\ UNCHANGED case
LDone == i > NT(case)
\* every layout with exactly one deviating boundary (and the canonical one), without stepping: one state each
SInit == \E c \in 1..N : \E k \in 0..NT(c) : \E b \in (IF k = 0 THEN {0} ELSE Menu(Toks(c)[k].pre) \ {Toks(c)[k].dflt}) :
           /\ case = c /\ i = NT(c) + 1 /\ devs = (IF k = 0 THEN 0 ELSE 1)
           /\ chosen = [j \in 1..NT(c) |-> IF j = k THEN b ELSE Toks(c)[j].dflt]
LEmit == ~LDone \/ PrintT(<<"REPLAY", ToJson([id |-> Cases[case].id, blanks |-> chosen, devs |-> devs])>>)
=======================================================================
