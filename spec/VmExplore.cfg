INIT Init
NEXT Next
VIEW View
INVARIANT Report
INVARIANT Seen
CHECK_DEADLOCK FALSE
