---------------------------- MODULE ChosenCheck ----------------------------
(* C11: the definition chosen for a nonterminal is the one for the target shell.
   Per recorded case: (a) the set of command texts that occur in the emitted script equals the set of
   command texts of the items of Meaning's position automaton (i.e. of Usage.Chosen at every used
   reference); (b) cases of one group - same grammar up to definitions for OTHER shells - have
   byte-identical scripts (memo model: first observation of a group fixes the value).
   The labelled-language side of C11 (the automaton's command items) is decided by Equiv.tla on the
   same records. *)
EXTENDS Meaning

VARIABLES case
Usable(c) == Obs(c).verdict = "ok" /\ Structural(c) = {}
Init == \E c \in 1..N : Usable(c) /\ case = c
Next == UNCHANGED case

SpecOf == [c \in 1..N |-> IF Usable(c) THEN Spec(c) ELSE <<>>]
Items(sp) == { sp.top.item[p] : p \in DOMAIN sp.top.item } \cup
             UNION { { sp.sub[s].item[p] : p \in DOMAIN sp.sub[s].item } : s \in DOMAIN sp.sub }
ExpectedTexts(c) == { it.t : it \in { x \in Items(SpecOf[c]) : IsCmdK(x.k) } }
\* markers: every command text that occurs anywhere in the grammar file or is a built-in for this shell
ObservedTexts(c) == { Obs(c).markers[i].text : i \in { j \in 1..Len(Obs(c).markers) : Obs(c).markers[j].present } }
Leader(c) == CHOOSE d \in 1..N : Usable(d) /\ Cases[d].grp = Cases[c].grp /\
                                 \A e \in 1..N : (Usable(e) /\ Cases[e].grp = Cases[c].grp) => d <= e
TextsOk == ExpectedTexts(case) = ObservedTexts(case)
GroupOk == Obs(case).sha = Obs(Leader(case)).sha

Report == (TextsOk /\ GroupOk) \/
          PrintT(<<"MISMATCH", ToJson([id |-> Cases[case].id, textsok |-> TextsOk, groupok |-> GroupOk,
                                       expected |-> ExpectedTexts(case), observed |-> ObservedTexts(case),
                                       leader |-> Cases[Leader(case)].id])>>)
Seen == PrintT(<<"VALIDATED", Cases[case].id>>)
=======================================================================
