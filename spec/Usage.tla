---------------------------- MODULE Usage ----------------------------
(* Abstract syntax and static meaning of a .usage grammar for one target shell:
   which definition a nonterminal stands for (C11), which grammars are ill-formed and why (C08),
   which warnings are due (C15), and the single resolved expression tree whose leaves carry
   literal text, description and `||` level (C02).  Written from README.md, the doc comments in
   parse.rs and the property statements; not transcribed from check.rs. *)
EXTENDS Corpus

NoDescr == [has |-> FALSE, text |-> ""]

DefIdx(c, name, sh) == { i \in 1..Len(Defs(c)) : Defs(c)[i].name = name /\ Defs(c)[i].sh = sh }
PlainNames(c) == { Defs(c)[i].name : i \in { j \in 1..Len(Defs(c)) : Defs(c)[j].sh = "" } }
SpecNames(c, sh) == { Defs(c)[i].name : i \in { j \in 1..Len(Defs(c)) : Defs(c)[j].sh = sh } }

Builtin(sh, name) ==
  CASE name = "PATH" /\ sh = "bash" -> "compgen -A file -- \"$1\""
    [] name = "PATH" /\ sh = "fish" -> "__fish_complete_path \"$argv[1]\""
    [] name = "PATH" /\ sh = "zsh"  -> "_path_files"
    [] name = "PATH" /\ sh = "pwsh" -> "Get-ChildItem | ForEach-Object { $_.Name }"
    [] name = "DIRECTORY" /\ sh = "bash" -> "compgen -A directory -- \"$1\""
    [] name = "DIRECTORY" /\ sh = "fish" -> "__fish_complete_directories \"$argv[1]\""
    [] name = "DIRECTORY" /\ sh = "zsh"  -> "_path_files -/"
    [] name = "DIRECTORY" /\ sh = "pwsh" -> "Get-ChildItem -Directory | ForEach-Object { $_.Name }"
    [] OTHER -> ""
IsBuiltinName(name) == name \in {"PATH", "DIRECTORY"}

(* C11: what <name> stands for when compiling for Shell(c).
   src = node id of the command node the text comes from (0 for a built-in). *)
Chosen(c, name) ==
  LET spec  == DefIdx(c, name, Shell(c))
      plain == DefIdx(c, name, "")
  IN  IF spec # {} THEN LET r == Defs(c)[CHOOSE i \in spec : TRUE].root IN
                        [tag |-> "cmd", text |-> Nd(c, r).t, compadd |-> Shell(c) = "zsh", src |-> r, how |-> "spec"]
      ELSE IF plain # {} THEN [tag |-> "expand", root |-> Defs(c)[CHOOSE i \in plain : TRUE].root, how |-> "plain"]
      ELSE IF IsBuiltinName(name) THEN [tag |-> "cmd", text |-> Builtin(Shell(c), name),
                                        compadd |-> Shell(c) = "zsh", src |-> 0, how |-> "builtin"]
      ELSE [tag |-> "star", how |-> "star"]

----------------------------------------------------------------------------
(* structure of references *)
RECURSIVE RefsIn(_, _)
RefsIn(c, n) ==     \* names referred to anywhere below node n (not through definitions)
  LET x == Nd(c, n) IN
  IF x.k = "ref" THEN {x.t} ELSE UNION { RefsIn(c, x.c[i]) : i \in 1..Len(x.c) }

\* dependency relation among definitions: A -> B iff <A> stands for its plain definition (it is not
\* taken over by a definition for the target shell) and that definition's right-hand side mentions <B>
DepOf(c, a) == IF Chosen(c, a).tag = "expand" THEN RefsIn(c, Chosen(c, a).root) ELSE {}
RECURSIVE CloseDeps(_, _, _)
CloseDeps(c, seen, frontier) ==
  IF frontier = {} THEN seen
  ELSE LET new == (UNION { DepOf(c, a) : a \in frontier }) \ seen IN CloseDeps(c, seen \cup new, new)
DependsTrans(c, a) == CloseDeps(c, DepOf(c, a), DepOf(c, a))       \* names reachable from a in >= 1 step
Cyclic(c) == \E a \in PlainNames(c) : a \in DependsTrans(c, a)

VariantRoots(c) == { Variants(c)[i].root : i \in 1..Len(Variants(c)) }
DirectRefs(c) == UNION { RefsIn(c, r) : r \in VariantRoots(c) }
\* names the call variants use, directly or through (chosen, plain) definitions
UsedNames(c) == CloseDeps(c, DirectRefs(c), DirectRefs(c))
\* names any statement refers to
MentionedNames(c) == DirectRefs(c) \cup UNION { RefsIn(c, Defs(c)[i].root) : i \in 1..Len(Defs(c)) }

(* C15 *)
Undefined(c) == { a \in UsedNames(c) : Chosen(c, a).tag = "star" /\ a # "_" }
UnusedPlain(c) == { a \in PlainNames(c) : a \notin MentionedNames(c) }
UnusedSpec(c) == { a \in SpecNames(c, Shell(c)) : a \notin MentionedNames(c) }

----------------------------------------------------------------------------
(* structural mistakes (C08), decidable without expanding anything *)
CmdNames(c) == { Variants(c)[i].name : i \in 1..Len(Variants(c)) }
HasSlash(c) == \E i \in 1..Len(Variants(c)) : 47 \in RangeS(Variants(c)[i].namecp)
DupPlain(c) == \E a \in PlainNames(c) : Cardinality(DefIdx(c, a, "")) > 1
DupSpec(c)  == \E a \in SpecNames(c, Shell(c)) : Cardinality(DefIdx(c, a, Shell(c))) > 1
UnknownShell(c) == \E i \in 1..Len(Defs(c)) : Defs(c)[i].sh \notin (KnownShells \cup {""})
NonCommandSpec(c) == \E i \in 1..Len(Defs(c)) : Defs(c)[i].sh # "" /\ Nd(c, Defs(c)[i].root).k # "cmd"
\* unspecified region: a name with a shell-specific definition whose plain definition is not a command
GrayPlainOfSpecialised(c) ==
  \E i \in 1..Len(Defs(c)) : Defs(c)[i].sh # "" /\
     \E j \in DefIdx(c, Defs(c)[i].name, "") : Nd(c, Defs(c)[j].root).k # "cmd"

Structural(c) ==
  (IF Len(Variants(c)) = 0 THEN {"missing_variants"} ELSE {}) \cup
  (IF Cardinality(CmdNames(c)) > 1 THEN {"varying_names"} ELSE {}) \cup
  (IF HasSlash(c) THEN {"invalid_name"} ELSE {}) \cup
  (IF DupPlain(c) \/ DupSpec(c) THEN {"duplicate_def"} ELSE {}) \cup
  (IF UnknownShell(c) THEN {"unknown_shell"} ELSE {}) \cup
  (IF NonCommandSpec(c) THEN {"noncommand_spec"} ELSE {}) \cup
  (IF Cyclic(c) THEN {"cycle"} ELSE {})

----------------------------------------------------------------------------
(* the resolved tree.  Leaves are addressed by pos = <<ids of the references traversed..., leaf id>>,
   so one definition used twice gives two positions. *)
Leaf(k, t, d, hd, lv, pos, src) == [k |-> k, t |-> t, d |-> d, hd |-> hd, lv |-> lv, pos |-> pos, c |-> <<>>, src |-> src]
Inner(k, lv, pos, ks) == [k |-> k, t |-> "", d |-> "", hd |-> FALSE, lv |-> lv, pos |-> pos, c |-> ks, src |-> 0]

\* Build(c, n, lv, path, pd, insub) = [tr |-> resolved tree, pd |-> description still pending]
\*   lv: index of the nearest enclosing `||` branch; pd: description being distributed;
\*   insub: inside a word (nested words collapse into the outer one)
RECURSIVE Build(_,_,_,_,_,_), BuildSeq(_,_,_,_,_,_,_)
BuildSeq(c, ks, i, lv, path, pd, insub) ==
  IF i > Len(ks) THEN [trs |-> <<>>, pd |-> pd]
  ELSE LET h == Build(c, ks[i], lv, path, pd, insub)
           r == BuildSeq(c, ks, i + 1, lv, path, h.pd, insub)
       IN  [trs |-> <<h.tr>> \o r.trs, pd |-> r.pd]

Build(c, n, lv, path, pd, insub) ==
  LET x == Nd(c, n)  pos == Append(path, n) IN
  CASE x.k = "lit" ->
         IF ~x.hd /\ pd.has THEN [tr |-> Leaf("lit", x.t, pd.text, TRUE, lv, pos, n), pd |-> NoDescr]
         ELSE [tr |-> Leaf("lit", x.t, x.d, x.hd, lv, pos, n), pd |-> pd]
    [] x.k = "cmd" -> [tr |-> Leaf("cmd", x.t, "", FALSE, lv, pos, n), pd |-> pd]
    [] x.k = "ref" ->
         LET ch == Chosen(c, x.t) IN
         (CASE ch.tag = "cmd"  -> [tr |-> Leaf(IF ch.compadd THEN "compadd" ELSE "cmd", ch.text, "", FALSE, lv, pos, ch.src), pd |-> pd]
           [] ch.tag = "star" -> [tr |-> Leaf("star", "", "", FALSE, 0, pos, n), pd |-> pd]
           [] ch.tag = "expand" -> [tr |-> Build(c, ch.root, lv, pos, NoDescr, insub).tr, pd |-> pd])
    [] x.k = "seq" -> LET r == BuildSeq(c, x.c, 1, lv, path, pd, insub) IN [tr |-> Inner("seq", lv, pos, r.trs), pd |-> r.pd]
    [] x.k = "alt" -> [tr |-> Inner("alt", lv, pos, [i \in 1..Len(x.c) |-> Build(c, x.c[i], lv, path, pd, insub).tr]), pd |-> pd]
    [] x.k = "fb"  -> [tr |-> Inner("alt", lv, pos, [i \in 1..Len(x.c) |-> Build(c, x.c[i], i - 1, path, IF i = 1 THEN pd ELSE NoDescr, insub).tr]), pd |-> pd]
    [] x.k = "opt" -> LET r == Build(c, x.c[1], lv, path, pd, insub) IN [tr |-> Inner("opt", lv, pos, <<r.tr>>), pd |-> r.pd]
    [] x.k = "many" -> LET r == Build(c, x.c[1], lv, path, pd, insub) IN [tr |-> Inner("many", lv, pos, <<r.tr>>), pd |-> r.pd]
    [] x.k = "dd"  -> [tr |-> Build(c, x.c[1], lv, path, [has |-> TRUE, text |-> x.t], insub).tr, pd |-> pd]
    [] x.k = "sub" ->
         LET r == BuildSeq(c, x.c, 1, lv, path, pd, TRUE) IN
         \* juxtaposition: a sequence without blanks, marked t = "jux"
         LET j == [Inner("seq", lv, pos, r.trs) EXCEPT !.t = "jux"] IN
         IF insub THEN [tr |-> j, pd |-> r.pd]
         ELSE [tr |-> [k |-> "sub", t |-> "", d |-> "", hd |-> FALSE, lv |-> lv, pos |-> pos,
                       c |-> <<j>>, src |-> n], pd |-> r.pd]

TopTree(c) ==
  LET vs == Variants(c) IN
  IF Len(vs) = 1 THEN Build(c, vs[1].root, 0, <<>>, NoDescr, FALSE).tr
  ELSE Inner("alt", 0, <<0>>, [i \in 1..Len(vs) |-> Build(c, vs[i].root, 0, <<>>, NoDescr, FALSE).tr])

(* `||` erased (C09) is expressed on the resolved tree: every level becomes 0 *)
=======================================================================
