---------------------------- MODULE Equiv ----------------------------
(* Product exploration of two labelled automata: the reachable graph of
   (specification configuration, implementation configuration) IS the product automaton, so
   exhausting it is a complete language-equivalence decision; breadth-first search makes hist a
   shortest distinguishing sequence.  Sides are chosen by the constant Mode:
     "spec-raw"  Meaning  vs recorded raw automaton         (C02)
     "spec-min"  Meaning  vs recorded minimised automaton   (C02)
     "raw-min"   recorded raw vs recorded minimised          (C03)
     "min-script" recorded minimised vs automaton read back from the emitted script (C04, no acceptance)
   Mismatches are reported as MISMATCH lines, not as invariant violations (DESIGN.md section 2). *)
EXTENDS Meaning, Automaton

HasMode(m) == \* substring test is not available in TLC; the orchestrator passes one flag per mode
  CASE m = "spec-raw" -> "M_SPEC_RAW" \in DOMAIN IOEnv
    [] m = "spec-min" -> "M_SPEC_MIN" \in DOMAIN IOEnv
    [] m = "raw-min"  -> "M_RAW_MIN" \in DOMAIN IOEnv
    [] m = "min-script" -> "M_MIN_SCRIPT" \in DOMAIN IOEnv
ActiveModes == { m \in {"spec-raw", "spec-min", "raw-min", "min-script"} : HasMode(m) }

Usable(c) == Obs(c).verdict = "ok" /\ Structural(c) = {}
SpecOf == [c \in 1..N |-> IF Usable(c) THEN Spec(c) ELSE <<>>]

LeftIsSpec(m) == m \in {"spec-raw", "spec-min"}
LAuto(c, m) == IF m = "raw-min" THEN Obs(c).raw ELSE Obs(c).min
LSubs(c, m) == IF m = "raw-min" THEN Obs(c).rawsubs ELSE Obs(c).minsubs
RAuto(c, m) == CASE m = "spec-raw" -> Obs(c).raw [] m \in {"spec-min", "raw-min"} -> Obs(c).min [] m = "min-script" -> Obs(c).script
RSubs(c, m) == CASE m = "spec-raw" -> Obs(c).rawsubs [] m \in {"spec-min", "raw-min"} -> Obs(c).minsubs [] m = "min-script" -> Obs(c).scriptsubs

VARIABLES case, mode, L, R, hist
vars == <<case, mode, L, R, hist>>

LEn  == IF LeftIsSpec(mode) THEN SEnabled(SpecOf[case], L) ELSE IEn(LAuto(case, mode), LSubs(case, mode), L)
LAccepting == IF LeftIsSpec(mode) THEN SAcc(SpecOf[case], L) ELSE IAcc(LAuto(case, mode), L)
REn  == IEn(RAuto(case, mode), RSubs(case, mode), R)
RAccepting == IAcc(RAuto(case, mode), R)
WithAcc == mode # "min-script"

Agree == LEn = REn /\ (WithAcc => (LAccepting <=> RAccepting))

Init == \E c \in 1..N, m \in ActiveModes :
          /\ Usable(c)
          /\ case = c /\ mode = m /\ hist = <<>>
          /\ L = (IF LeftIsSpec(m) THEN SInit(SpecOf[c]) ELSE IInit(LAuto(c, m)))
          /\ R = IInit(RAuto(c, m))
Next == /\ Agree
        /\ \E a \in LEn :
             /\ L' = (IF LeftIsSpec(mode) THEN SStep(SpecOf[case], L, a) ELSE IStep(LAuto(case, mode), LSubs(case, mode), L, a))
             /\ R' = IStep(RAuto(case, mode), RSubs(case, mode), R, a)
             /\ hist' = Append(hist, a)
             /\ UNCHANGED <<case, mode>>
View == <<case, mode, L, R>>

Report == Agree \/ PrintT(<<"MISMATCH", ToJson([id |-> Cases[case].id, mode |-> mode, hist |-> hist,
                                   left |-> LEn \ REn, right |-> REn \ LEn,
                                   lacc |-> LAccepting, racc |-> RAccepting, inword |-> L.m = "in"])>>)
\* vacuity control: count of validated records
Seen == hist # <<>> \/ PrintT(<<"VALIDATED", Cases[case].id, mode>>)
=======================================================================
