INIT Init
NEXT Next
INVARIANT Report
INVARIANT Seen
INVARIANT Consumed
CHECK_DEADLOCK FALSE
