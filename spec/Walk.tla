---------------------------- MODULE Walk ----------------------------
(* spec -> impl: TLC explores the word-level state graph of Meaning per grammar (one state per reachable
   position set, history hidden by the VIEW so breadth-first search keeps a shortest word sequence) and
   prints one REPLAY line per state: the words typed so far and the typed prefixes to try at the cursor.
   The harness replays each into the real bash and records the outcome for BashCheck.tla. *)
EXTENDS Words

MaxDepth == IF "WALK_DEPTH" \in DOMAIN IOEnv THEN atoi(IOEnv.WALK_DEPTH) ELSE 4
TokDepth == 3
FOREIGN == <<113, 113>>          \* "qq"
ANYTXT == <<122, 122>>           \* "zz", stands for text read by a placeholder inside a word

Usable(c) == Structural(c) = {}
SpecOf == [c \in 1..N |-> IF Usable(c) THEN Spec(c) ELSE <<>>]

\* words a within-word expression accepts, following at most k tokens from position set Q
RECURSIVE SubWordsFrom(_, _, _, _)
SubWordsFrom(c, g, Q, k) ==
  (IF END \in Q THEN {<<>>} ELSE {}) \cup
  (IF k = 0 THEN {}
   ELSE UNION { LET ts == IF g.item[q].k = "star" THEN {ANYTXT} ELSE Toks(c, g.item[q]) IN
                { t \o w : t \in ts, w \in SubWordsFrom(c, g, g.fol[q], k - 1) } : q \in Q \ {END} })
SubWords(c, g) == SubWordsFrom(c, g, g.init, TokDepth)
\* partial words: complete tokens that stop before the expression is finished
RECURSIVE SubStemsFrom(_, _, _, _)
SubStemsFrom(c, g, Q, k) ==
  {<<>>} \cup
  (IF k = 0 THEN {}
   ELSE UNION { { t \o w : t \in Toks(c, g.item[q]), w \in SubStemsFrom(c, g, g.fol[q], k - 1) } : q \in Q \ {END} })
SubStems(c, g) == SubStemsFrom(c, g, g.init, 2)

NextWords(c, sp, P) ==
  IF P = FAIL THEN {}
  ELSE UNION { LET it == sp.top.item[p] IN
               IF it.k = "lit" THEN {CpOf(c, it)}
               ELSE IF IsCmdK(it.k) THEN CandsOf(c, it)
               ELSE IF it.k = "sub" THEN SubWords(c, sp.sub[p])
               ELSE {} : p \in P \ {END} }
Stems(c, sp, P) ==
  IF P = FAIL THEN {} ELSE UNION { SubStems(c, sp.sub[p]) : p \in { q \in P \ {END} : sp.top.item[q].k = "sub" } }
PrefixesOf(w) == { SubSeq(w, 1, i) : i \in 0..Len(w) }
TryPrefixes(c, sp, P) == {<<>>, FOREIGN} \cup UNION { PrefixesOf(w) : w \in NextWords(c, sp, P) } \cup Stems(c, sp, P)

VARIABLES case, P, hist
vars == <<case, P, hist>>
sp == SpecOf[case]

Init == \E c \in 1..N : Usable(c) /\ case = c /\ P = SpecOf[c].top.init /\ hist = <<>>
Next == /\ P # FAIL /\ Len(hist) < MaxDepth
        /\ \E w \in NextWords(case, sp, P) \cup {FOREIGN} \cup (Stems(case, sp, P) \ {<<>>}) :
             /\ P' = StepWord(case, sp, P, w)
             /\ hist' = Append(hist, w)
             /\ UNCHANGED case
View == <<case, P>>
Emit == PrintT(<<"REPLAY", ToJson([id |-> Cases[case].id, words |-> hist,
                                   prefixes |-> IF P = FAIL THEN {<<>>} ELSE TryPrefixes(case, sp, P),
                                   fail |-> P = FAIL, depth |-> Len(hist)])>>)
=======================================================================
