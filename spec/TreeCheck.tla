---------------------------- MODULE TreeCheck ----------------------------
(* C05: the tree Grammar::parse produced (recorded through the accessors) equals the tree that was printed:
   same statement kinds / names / shell tags in the same order, same operators, same nesting, same literal and
   description text.  One TLC state per recorded parse.  The printed tree is the generator's arena (Corpus). *)
EXTENDS Corpus

VARIABLE case
Init == \E c \in 1..N : case = c
Next == UNCHANGED case

\* all differences between arena node n and recorded tree tr, as [at: path of child indices, what]
RECURSIVE Diffs(_, _, _, _)
Diffs(c, n, tr, path) ==
  LET x == Nd(c, n) IN
  (IF x.k # tr.k THEN {[at |-> path, what |-> "operator", printed |-> x.k, parsed |-> tr.k]} ELSE {}) \cup
  (IF x.k = tr.k /\ x.t # tr.t THEN {[at |-> path, what |-> "text", printed |-> x.t, parsed |-> tr.t]} ELSE {}) \cup
  (IF x.k = tr.k /\ <<x.hd, x.d>> # <<tr.hd, tr.d>> THEN {[at |-> path, what |-> "description", printed |-> x.d, parsed |-> tr.d]} ELSE {}) \cup
  (IF x.k = tr.k /\ Len(x.c) # Len(tr.c) THEN {[at |-> path, what |-> "arity", printed |-> ToString(Len(x.c)), parsed |-> ToString(Len(tr.c))]} ELSE {}) \cup
  (IF x.k = tr.k /\ Len(x.c) = Len(tr.c) THEN UNION { Diffs(c, x.c[i], tr.c[i], Append(path, i)) : i \in 1..Len(x.c) } ELSE {})

\* the statements as printed: call variants first, then definitions, in the order given
Printed(c) == [i \in 1..(Len(Variants(c)) + Len(Defs(c))) |->
                 IF i <= Len(Variants(c)) THEN [kind |-> "variant", name |-> Variants(c)[i].name, sh |-> "", root |-> Variants(c)[i].root]
                 ELSE LET d == Defs(c)[i - Len(Variants(c))] IN [kind |-> "def", name |-> d.name, sh |-> d.sh, root |-> d.root]]
Order(c) == IF "order" \in DOMAIN Cases[c] THEN Cases[c].order ELSE [i \in 1..Len(Printed(c)) |-> i]

Structure ==
  IF ~Obs(case).ok THEN {[at |-> <<>>, what |-> "does_not_parse", printed |-> "", parsed |-> ""]}
  ELSE LET ps == Printed(case)  os == Obs(case).statements  ord == Order(case) IN
       IF Len(ps) # Len(os) THEN {[at |-> <<>>, what |-> "statement_count", printed |-> ToString(Len(ps)), parsed |-> ToString(Len(os))]}
       ELSE UNION { LET p == ps[ord[i]]  o == os[i] IN
                    (IF <<p.kind, p.name, p.sh>> # <<o.kind, o.name, o.sh>>
                     THEN {[at |-> <<i>>, what |-> "statement_head", printed |-> p.name, parsed |-> o.name]} ELSE {}) \cup
                    Diffs(case, p.root, o.tree, <<i>>) : i \in 1..Len(ps) }
\* expect = "differ": a spelling that contains an operator must NOT read back as the plain text
ExpectDiffer == "expect" \in DOMAIN Cases[case] /\ Cases[case].expect = "differ"
Problems == IF ExpectDiffer
            THEN (IF Structure = {} THEN {[at |-> <<>>, what |-> "operator_spelling_read_as_text", printed |-> "", parsed |-> ""]} ELSE {})
            ELSE Structure

Report == Problems = {} \/ PrintT(<<"MISMATCH", ToJson([id |-> Cases[case].id, problems |-> Problems])>>)
Seen == PrintT(<<"VALIDATED", Cases[case].id>>)
=======================================================================
