---------------------------- MODULE ResolveTrace ----------------------------
(* Trace validation of src/check.rs::get_nonterminals_resolution_order against Resolve.tla: the events the instrumented
   code (cargo feature `verif`, fourth hook commit) reported while validating one grammar must be a behaviour of the
   specification.
     ro_init(graph)   the dependency graph (it IS the case: Resolve's constants are read from it)
     ro_root(v, ph)   ro_enter(v)   ro_edge(v, c, k in {cycle, seen, descend})   ro_emit(v)   ro_done(order)
   One event per specification action, emitted after the state change.  Steps the code does not report are taken silently
   and each is enabled only when the specification says nothing is to be reported: the change of phase, and the return
   from a root of the "allcyc" loop (which appends nothing).  Which root and which child comes next is NOT fixed by the
   specification - it is read from the trace.
   The record also carries the verdict of ValidGrammar::from_grammar: "ok" must go with a trace that ends in `done`, the
   cycle error with one that ends in `cycle`, and (generated grammars have no other mistake) nothing else may occur.
   Cases: [id, graph, events, verdict: "ok" | "cycle" | other]. *)
EXTENDS Resolve

Ev(c) == D[c].events
VARIABLE l
tvars == <<vars, l>>
TInit == Init /\ l = 1
Is(e) == l <= Len(Ev(case)) /\ Ev(case)[l].ev = e
E == Ev(case)[l]
Consume == l' = l + 1
Silent == l' = l

TStart == Start /\ Silent
TRoot == /\ Is("ro_root") /\ PickRoot(E.v) /\ phase = E.ph /\ Consume
TEnter == /\ Is("ro_enter") /\ Enter /\ cur = E.v /\ Consume
TEdge == /\ Is("ro_edge") /\ pc = "dfs" /\ Len(stack) > 0 /\ Top.v = E.v /\ Edge(E.c) /\ EdgeKind(E.c) = E.k /\ Consume
TEmit == /\ Is("ro_emit") /\ Return /\ Emitted = E.v /\ Consume
TSilentReturn == /\ pc = "dfs" /\ Len(stack) > 0 /\ Top.todo = {} /\ Emitted = "" /\ Return /\ Silent
TPhase == /\ NextPhase /\ pc' # "done" /\ Silent
TDone == /\ Is("ro_done") /\ NextPhase /\ pc' = "done" /\ ToSet(E.order) = ToSet(Final) /\ Len(E.order) = Len(Final)
         /\ (\A i \in 1..Len(Final) : E.order[i] = Final[i]) /\ Consume
TSubst == Substitute /\ Silent
TNext == TSubst \/ TStart \/ TRoot \/ TEnter \/ TEdge \/ TEmit \/ TSilentReturn \/ TPhase \/ TDone

Accepted == l = Len(Ev(case)) + 1 /\ pc \in {"done", "cycle"}
VerdictOk == (pc = "done" /\ D[case].verdict = "ok") \/ (pc = "cycle" /\ D[case].verdict = "cycle")
ReportAccepted == ~Accepted \/ PrintT(<<"ACCEPTED", D[case].id, pc, IF VerdictOk THEN "verdict_ok" ELSE "verdict_differs">>)
ReportExpect == pc # "start" \/ PrintT(<<"EXPECT", D[case].id, IF Cyclic[case] THEN "cyclic" ELSE "acyclic">>)
ReportProgress == PrintT(<<"AT", D[case].id, l - 1>>)
=======================================================================
