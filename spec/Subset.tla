---------------------------- MODULE Subset ----------------------------
(* Mechanism model of src/dfa.rs::dfa_from_regex (the Dragon Book's direct construction of a DFA from firstpos / followpos)
   followed by the part of do_minimize that runs after the partition refinement (representatives, the two clean-up passes,
   renumber_states), one action per loop iteration of the code, with the nondeterminism the program text leaves open:
   `unmarked_states` is a hash set of position sets, so WHICH unmarked state is processed next is not fixed by the text.
     Pop        take any unmarked state S; it becomes the next key of the `transitions` map (insertion order = `order`)
     Step       the inputs are tried in interning order (0, 1, ...); for input i the target is the union of followpos(p) over
                the positions p of S whose symbol is i; an empty target is no transition; a target not seen before gets the
                next state id and becomes unmarked
     EndInputs  all inputs tried
     Finish     no unmarked state left; the accepting states are those containing the end marker's position
   Design questions (for ALL pop orders, on the position systems of real grammars):
     Complete   the states are exactly the position sets reachable from firstpos (computed below without any schedule)
     Exact      the transitions are exactly Move; one per (state, input)
     Dense      ids are 1..n in allocation order, the start state is 1, no set has two ids
     Final      the automaton that leaves do_minimize (Nerode classes by Moore refinement, representative = least id,
                clean-up, renumbering in the order of the transition vector) is printed per terminal state: the orchestrator
                counts per case how many DIFFERENT final automata the pop orders produce (all are isomorphic by Complete /
                Exact; if the count is above one, the state NUMBERS in the emitted scripts are a function of the hash
                set's iteration order - which C10 then has to establish by observation)
   Input: Cases = << [id, end: the end marker's position (positions 0..end), first, follow: <<<<p, <<...>>>>>>, sym: input id per
   position 0..end-1, ninp] >> exactly as the instrumented code reports them in its `sc_init` event. *)
EXTENDS Integers, Sequences, FiniteSets, TLC, Json, IOUtils

D == ndJsonDeserialize(IOEnv.CASES)
N == Len(D)
ToSet(s) == { s[i] : i \in 1..Len(s) }
End(c) == D[c].end
First(c) == ToSet(D[c].first)
Fol(c, p) == UNION { ToSet(D[c].follow[i][2]) : i \in { j \in 1..Len(D[c].follow) : D[c].follow[j][1] = p } }
Sym(c, p) == D[c].sym[p + 1]
Inputs(c) == 0..(D[c].ninp - 1)
Move(c, S, i) == UNION { Fol(c, p) : p \in { q \in S : q # End(c) /\ Sym(c, q) = i } }

\* reference, computed without any schedule
RECURSIVE Close(_, _)
Close(c, W) == LET Nw == (W \cup { Move(c, S, i) : S \in W, i \in Inputs(c) }) \ {{}} IN IF Nw = W THEN W ELSE Close(c, Nw)
Reach == [c \in 1..N |-> Close(c, {First(c)})]

VARIABLES case, sets, unmarked, trans, order, pc, cur, inpi
vars == <<case, sets, unmarked, trans, order, pc, cur, inpi>>

IdIn(ss, S) == CHOOSE k \in 1..Len(ss) : ss[k] = S
Known(S) == \E k \in 1..Len(sets) : sets[k] = S

Init == \E c \in 1..N :
   /\ case = c /\ sets = <<First(c)>> /\ unmarked = {First(c)} /\ trans = {} /\ order = <<>>
   /\ pc = "pop" /\ cur = {} /\ inpi = 0
Pop == /\ pc = "pop" /\ unmarked # {}
       /\ \E S \in unmarked : cur' = S /\ unmarked' = unmarked \ {S} /\ order' = Append(order, IdIn(sets, S))
       /\ pc' = "inputs" /\ inpi' = 0 /\ UNCHANGED <<case, sets, trans>>
Step == /\ pc = "inputs" /\ inpi < D[case].ninp
        /\ LET T == Move(case, cur, inpi) IN
           IF T = {} THEN UNCHANGED <<sets, unmarked, trans>>
           ELSE /\ sets' = IF Known(T) THEN sets ELSE Append(sets, T)
                /\ unmarked' = IF Known(T) THEN unmarked ELSE unmarked \cup {T}
                /\ trans' = trans \cup {<<IdIn(sets, cur), inpi, IdIn(sets', T)>>}
        /\ inpi' = inpi + 1 /\ UNCHANGED <<case, order, pc, cur>>
EndInputs == /\ pc = "inputs" /\ inpi = D[case].ninp /\ pc' = "pop" /\ UNCHANGED <<case, sets, unmarked, trans, order, cur, inpi>>
Finish == /\ pc = "pop" /\ unmarked = {} /\ pc' = "done" /\ UNCHANGED <<case, sets, unmarked, trans, order, cur, inpi>>
Next == Pop \/ Step \/ EndInputs \/ Finish

Accepting == { k \in 1..Len(sets) : End(case) \in sets[k] }

Dense == /\ sets[1] = First(case)
         /\ \A a, b \in 1..Len(sets) : sets[a] = sets[b] => a = b
         /\ \A t \in trans : t[1] \in 1..Len(sets) /\ t[3] \in 1..Len(sets)
Deterministic == \A t, u \in trans : t[1] = u[1] /\ t[2] = u[2] => t[3] = u[3]
Complete == pc = "done" => ToSet(sets) = Reach[case]
Exact == pc = "done" => trans = { <<IdIn(sets, S), i, IdIn(sets, Move(case, S, i))>> : <<S, i>> \in { x \in ToSet(sets) \X Inputs(case) : Move(case, x[1], x[2]) # {} } }
Popped == pc = "done" => Len(order) = Len(sets) /\ ToSet(order) = 1..Len(sets)

\* ---- what do_minimize makes of it after the refinement (the refinement itself is Hopcroft.tla; its result is the Nerode partition)
\* Every stage is a LET constant so that TLC evaluates it once per state.
States == 0..Len(sets)
RECURSIVE Moore(_, _)
Moore(delta, eq) == LET eq2 == { p \in eq : \A i \in Inputs(case) : <<delta[p[1], i], delta[p[2], i]>> \in eq } IN IF eq2 = eq THEN eq ELSE Moore(delta, eq2)
RECURSIVE Cat(_, _, _)
Cat(f, k, n) == IF k > n THEN <<>> ELSE f[k] \o Cat(f, k + 1, n)
RECURSIVE FirstSeen(_, _, _)
FirstSeen(v, j, acc) == IF j > Len(v) THEN acc
                        ELSE LET a1 == IF \E x \in 1..Len(acc) : acc[x] = v[j][1] THEN acc ELSE Append(acc, v[j][1])
                                 a2 == IF \E x \in 1..Len(a1) : a1[x] = v[j][3] THEN a1 ELSE Append(a1, v[j][3])
                             IN FirstSeen(v, j + 1, a2)
Final ==
  LET accepting == Accepting
      delta == [s \in States, i \in Inputs(case) |-> IF \E t \in trans : t[1] = s /\ t[2] = i THEN (CHOOSE t \in trans : t[1] = s /\ t[2] = i)[3] ELSE 0]
      kind == [s \in States |-> IF s = 0 THEN 0 ELSE IF s \in accepting THEN 1 ELSE 2]
      equiv == Moore(delta, { p \in States \X States : kind[p[1]] = kind[p[2]] })
      rep == [s \in States |-> CHOOSE r \in States : <<s, r>> \in equiv /\ \A q \in States : <<s, q>> \in equiv => r <= q]
      \* the transition vector in the order the code builds it: keys of `transitions` in insertion (= pop) order, inputs in interning order
      outs == [k \in 1..Len(order) |-> LET s == order[k]
                                           row == [i \in Inputs(case) |-> IF delta[s, i] = 0 THEN <<>> ELSE <<<<s, i, rep[delta[s, i]]>>>>]
                                           RECURSIVE Go(_)
                                           Go(i) == IF i = D[case].ninp THEN <<>> ELSE row[i] \o Go(i + 1)
                                       IN Go(0)]
      vec0 == Cat(outs, 1, Len(order))
      start == rep[1]
      \* keep_only_states_with_input_transitions
      hasin == { vec0[j][3] : j \in 1..Len(vec0) }
      acca == { rep[a] : a \in accepting } \cap ({start} \cup hasin)
      vec1 == SelectSeq(vec0, LAMBDA t : t[1] = start \/ (t[1] \in hasin /\ t[3] \in hasin))
      \* eliminate_nonaccepting_states_without_output_transitions
      hasout == { vec1[j][1] : j \in 1..Len(vec1) }
      vec2 == SelectSeq(vec1, LAMBDA t : t[3] \in acca \/ t[3] \in hasout)
      \* renumber_states: the start state first, then every `from` and `to` in the order of the vector; accepting states that
      \* occur nowhere are not renumbered by the code (it would panic on them: they cannot exist for these automata)
      seen == FirstSeen(vec2, 1, <<start>>)
      newid == [s \in { seen[x] : x \in 1..Len(seen) } |-> (CHOOSE x \in 1..Len(seen) : seen[x] = s) - 1]
  IN [tr |-> { <<newid[vec2[j][1]], vec2[j][2], newid[vec2[j][3]]>> : j \in 1..Len(vec2) },
      acc |-> { newid[a] : a \in acca \cap DOMAIN newid },
      lost |-> acca \ DOMAIN newid,
      n |-> Len(seen)]
\* the final automaton, canonically printed (TLC prints sets sorted)
Terminated == pc # "done" \/ PrintT(<<"FINAL", D[case].id, Len(sets), ToJson(Final)>>)

ReportDense == Dense \/ PrintT(<<"MECH", D[case].id, "dense">>)
ReportDeterministic == Deterministic \/ PrintT(<<"MECH", D[case].id, "deterministic">>)
ReportComplete == Complete \/ PrintT(<<"MECH", D[case].id, "complete">>)
ReportExact == Exact \/ PrintT(<<"MECH", D[case].id, "exact">>)
ReportPopped == Popped \/ PrintT(<<"MECH", D[case].id, "popped">>)
=======================================================================
