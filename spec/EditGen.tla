---------------------------- MODULE EditGen ----------------------------
(* C06 input space: structure-aware mutations of a seed grammar's token list, as a state machine.  A state is a seed
   and the sequence of edits applied so far; TLC enumerates every edit sequence up to MaxEdits (exhaustively for the
   seeds given) and prints one REPLAY line per state.  Edits address token positions of the CURRENT list; the harness
   applies them (lib/edits.py) - the length bookkeeping below mirrors it.
     del i        delete token i                      dup i      duplicate token i
     swap i       swap tokens i and i+1               ins i b    insert bracket/operator token b before token i
     trunc i      cut the file after token i          splice i k insert byte pattern k before token i
                                                                 (invalid UTF-8, NUL, CR, lone backslash, quote, `{{{`) *)
EXTENDS Naturals, Sequences, FiniteSets, TLC, Json, IOUtils

Cases == ndJsonDeserialize(IOEnv.CASES)        \* [id, ntok]
N == Len(Cases)
MaxEdits == IF "MAXEDITS" \in DOMAIN IOEnv THEN atoi(IOEnv.MAXEDITS) ELSE 1
NIns == 12          \* ( ) [ ] < > | || ... ; " {{{
NSplice == 8

VARIABLES case, len, edits
Init == \E c \in 1..N : case = c /\ len = Cases[c].ntok /\ edits = <<>>
Del == len >= 1 /\ \E i \in 1..len : edits' = Append(edits, <<"del", i, 0>>) /\ len' = len - 1
Dup == len >= 1 /\ \E i \in 1..len : edits' = Append(edits, <<"dup", i, 0>>) /\ len' = len + 1
Swap == len >= 2 /\ \E i \in 1..(len - 1) : edits' = Append(edits, <<"swap", i, 0>>) /\ len' = len
Ins == \E i \in 1..(len + 1) : \E b \in 1..NIns : edits' = Append(edits, <<"ins", i, b>>) /\ len' = len + 1
Trunc == len >= 1 /\ \E i \in 0..(len - 1) : edits' = Append(edits, <<"trunc", i, 0>>) /\ len' = i
Splice == \E i \in 1..(len + 1) : \E k \in 1..NSplice : edits' = Append(edits, <<"splice", i, k>>) /\ len' = len + 1
Next == Len(edits) < MaxEdits /\ (Del \/ Dup \/ Swap \/ Ins \/ Trunc \/ Splice) /\ UNCHANGED case
Emit == edits = <<>> \/ PrintT(<<"REPLAY", ToJson([id |-> Cases[case].id, edits |-> edits])>>)
=======================================================================
