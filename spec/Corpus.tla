---------------------------- MODULE Corpus ----------------------------
(* The records under validation.  One NDJSON line per case, written by the harness:
   the generator's own tree of the grammar (never complgen's parse), the target shell and
   whatever the real code was observed to do (field obs).  TLC reads the file named by the
   environment variable CASES. *)
EXTENDS Naturals, Integers, Sequences, FiniteSets, TLC, Json, IOUtils

Cases == ndJsonDeserialize(IOEnv.CASES)
N == Len(Cases)

Shell(c) == Cases[c].shell
Nd(c, n) == Cases[c].ast.nodes[n]
NNodes(c) == Len(Cases[c].ast.nodes)
Defs(c) == Cases[c].ast.defs
Variants(c) == Cases[c].ast.variants
Obs(c) == Cases[c].obs

RangeS(s) == { s[i] : i \in 1..Len(s) }
KnownShells == {"bash", "fish", "zsh", "pwsh"}
=======================================================================
