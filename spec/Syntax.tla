---------------------------- MODULE Syntax ----------------------------
(* Concrete syntax of a .usage file as the generator prints it: a list of tokens (with the blank policy
   before each: "none" = juxtaposed, "opt" = blanks allowed, "req" = at least one blank required), a menu of
   blanks (spaces, tabs, newlines, comments, form feed), and where every token starts (line, column) under a
   given choice of blanks.  Used
     - as a state machine that enumerates layouts (spec -> impl: LayoutGen.cfg prints one REPLAY line per layout),
     - to compute source positions for the diagnostics checks (C13, C15),
     - to compare a parsed tree with the tree that was printed (C05).
   Case fields:  toks = << [len, pre, kind, name, node, stmt, dflt] >>,  blanks (when a layout was applied). *)
EXTENDS Corpus

(* blank id -> [nl: newlines it contains, w: characters after the last newline (or in all, if none)];
   ids are 0-based in the records, the texts live in the harness (lib/layout.py BLANKS, same order):
   0 ""   1 " "   2 "  "   3 TAB   4 LF   5 LF LF   6 " # note" LF   7 LF + 4 spaces   8 FF   9 " " LF "# a | b ; (c" LF "  "
   10 " #" LF (a comment with an empty body)   11 CR LF *)
BlankShape == << [nl |-> 0, w |-> 0], [nl |-> 0, w |-> 1], [nl |-> 0, w |-> 2], [nl |-> 0, w |-> 1], [nl |-> 1, w |-> 0],
                 [nl |-> 2, w |-> 0], [nl |-> 1, w |-> 0], [nl |-> 1, w |-> 4], [nl |-> 0, w |-> 1], [nl |-> 2, w |-> 2],
                 [nl |-> 1, w |-> 0], [nl |-> 1, w |-> 0] >>
NBlanks == Len(BlankShape)
Menu(pre) == CASE pre = "none" -> {0} [] pre = "opt" -> 0..(NBlanks - 1) [] pre = "req" -> 1..(NBlanks - 1)

Toks(c) == Cases[c].toks
NT(c) == Len(Toks(c))

\* position after writing blank b at (line, col)
AfterBlank(p, b) == LET s == BlankShape[b + 1] IN
                    IF s.nl = 0 THEN [line |-> p.line, col |-> p.col + s.w] ELSE [line |-> p.line + s.nl, col |-> 1 + s.w]
\* tokens are single-line (multi-line tokens carry nl/tail like blanks)
AfterTok(p, t) == IF t.nl = 0 THEN [line |-> p.line, col |-> p.col + t.len] ELSE [line |-> p.line + t.nl, col |-> 1 + t.tail]

\* starts of all tokens under the blank choice bl (a sequence of blank ids, one per token)
RECURSIVE StartsFrom(_, _, _, _)
StartsFrom(c, bl, i, p) ==
  IF i > NT(c) THEN <<>>
  ELSE LET s == AfterBlank(p, bl[i]) IN <<s>> \o StartsFrom(c, bl, i + 1, AfterTok(s, Toks(c)[i]))
Starts(c, bl) == StartsFrom(c, bl, 1, [line |-> 1, col |-> 1])

TokAt(c, st, line, col) == { i \in 1..NT(c) : st[i].line = line /\ st[i].col = col }
=======================================================================
