---------------------------- MODULE VmCheck ----------------------------
(* Conformance of BashVM.tla with the real bash: every recorded completion (words, typed prefix, COMP_WORDBREAKS ->
   status, reply set) must be one of the model's outcomes for the tables read back from the very script that ran.
   One TLC state per recorded query.  A disagreement is MODEL-DRIFT (the model misrepresents the script), never a verdict
   on complgen.  Cases: [id, vm, queries: << [words, prefix, wb, rc, reply] >>]. *)
EXTENDS BashVM, Json, IOUtils

Cases == ndJsonDeserialize(IOEnv.CASES)
N == Len(Cases)
RangeS(s) == { s[i] : i \in 1..Len(s) }
VARIABLES case, qi
Init == \E c \in 1..N : \E i \in 1..Len(Cases[c].queries) : case = c /\ qi = i
Next == UNCHANGED <<case, qi>>
Q == Cases[case].queries[qi]
O == Outcomes(Cases[case].vm, Q.words, Q.prefix, Q.wb)
Real == [rc |-> Q.rc, reply |-> RangeS(Q.reply)]
Unsure == \E o \in O : o.rc = -1
Conforms == Unsure \/ Real \in O
Report == Conforms \/ PrintT(<<"DRIFT", ToJson([id |-> Cases[case].id, qi |-> qi, model |-> O, real |-> Real])>>)
Seen == PrintT(<<IF Unsure THEN "UNSURE" ELSE "CONFORMS", Cases[case].id, qi>>)
=======================================================================
