INIT TInit
NEXT TNext
INVARIANT ReportAccepted
INVARIANT ReportSound
CHECK_DEADLOCK FALSE
